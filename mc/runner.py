"""Runs one property: E1 scenarios and/or E2 enumerations; violations -> replay files; evidence."""
import hashlib, json, os, sys, time

from .engine import HarnessError, Violation
from . import engine, findings

ROOT = os.path.dirname(os.path.dirname(os.path.abspath(__file__)))
OUT = os.environ.get("VERIF_OUT", ROOT)      # where evidence/ and replays/ go (mutant runs redirect this)
MAX_REPORTED = 6


def log(msg):
    sys.stdout.write(msg + "\n")
    sys.stdout.flush()


def jsonable(o):
    from fractions import Fraction
    if isinstance(o, (str, int, float, bool)) or o is None:
        return o
    if isinstance(o, Fraction):
        return float(o)
    if isinstance(o, bytes):
        return o.hex()
    if isinstance(o, dict):
        return {str(k): jsonable(v) for k, v in o.items()}
    if isinstance(o, (list, tuple, set, frozenset)):
        return [jsonable(x) for x in o]
    return repr(o)


def write_replay(pid, payload):
    d = os.path.join(OUT, "replays", pid)
    os.makedirs(d, exist_ok=True)
    text = json.dumps(jsonable(payload), indent=1, sort_keys=True)
    name = hashlib.md5(json.dumps(jsonable({k: payload.get(k) for k in ("scenario", "events", "input", "kind", "tier")}),
                                  sort_keys=True).encode()).hexdigest()[:12]
    path = os.path.join(d, name + ".json")
    with open(path, "w") as fh:
        fh.write(text + "\n")
    return path


class Ctx(object):
    def __init__(self, pid, tier, seed, verbose):
        self.pid = pid
        self.tier = tier
        self.seed = seed
        self.verbose = verbose
        self.quick = tier == "quick"

    def progress(self, msg):
        if self.verbose:
            log(msg)


def run_property(pid, mod, tier, seed, verbose=False):
    t0 = time.time()
    ctx = Ctx(pid, tier, seed, verbose)
    known = findings.load()
    for line in findings.fixed_lines(known, pid):
        pass          # fixed entries suppress nothing; they are documentation (see known_findings.json)
    scns = mod.scenarios(tier) if hasattr(mod, "scenarios") else []
    only = os.environ.get("VERIF_ONLY")          # debugging aid: restrict to scenarios matching a substring
    if only:
        scns = [s for s in scns if only in s.name]
    ids = engine.register(scns)
    # wall-clock safety net per scenario (a level that has started is always completed; hitting the net is
    # reported as a cap): the quick tier is sized by state/depth caps, the net only matters on a loaded machine
    engine._DEFAULT_BUDGET[0] = int(os.environ.get("VERIF_SCENARIO_SECONDS", "120" if tier == "quick" else "480"))
    if hasattr(mod, "prepare"):
        mod.prepare(ctx)                 # registers enumerator functions before the pool forks
    if hasattr(mod, "static_guard"):
        mod.static_guard(ctx)
    from . import staticguard
    guard_note = staticguard.check()

    cov = dict(states=0, transitions=0, traces_validated_against_impl=0, evaluations=0, distinct_nontrivial=0,
               samples=[], exhaustive=True, scenarios=[], caps_hit=[])
    violations = []       # dict(msg, sig, payload, finding)
    known_lines = []
    nontrivial = set(getattr(mod, "NONTRIVIAL", ()))

    # ---------------- E1
    # whole-check budget (safety net for trees on which de-duplication is ineffective, e.g. after a change that adds
    # run-dependent bookkeeping to the state): scenarios share what is left of it
    total_budget = int(os.environ.get("VERIF_CHECK_SECONDS", "300" if tier == "quick" else "2400"))
    for n_done, (si, scn) in enumerate(zip(ids, scns)):
        left = total_budget - (time.time() - t0)
        share = max(4, left / max(1, len(scns) - n_done))
        scn.max_seconds = min(scn.max_seconds or engine._DEFAULT_BUDGET[0], max(share, 4))
        if tier == "quick":
            # every quick scenario of the pinned tree stays well below this; it bounds the work on a tree whose
            # state carries bookkeeping that makes every history a new state
            scn.max_states = min(scn.max_states, 60000)
        res = engine.explore(si, seed=seed, shadow_every=getattr(mod, "SHADOW", {"quick": 25, "thorough": 5})[tier],
                             progress=ctx.progress if verbose else None)
        cov["states"] += res.states
        cov["transitions"] += res.transitions
        cov["traces_validated_against_impl"] += res.replayed
        cov["evaluations"] += res.transitions
        cov["distinct_nontrivial"] += sum(n for t, n in res.tag_states.items() if t in nontrivial) \
            if nontrivial else 0
        summ = res.summary()
        cov["scenarios"].append(summ)
        if not res.fixpoint:
            cov["exhaustive"] = False
            cov["caps_hit"].append("%s: %s" % (scn.name, res.cap_hit or "stopped at a violation"))
        for hist in res.sample_hists[:2]:
            events = [scn.menu[i] for i in hist]
            trace, v = engine.replay(scn, events)
            cov["traces_validated_against_impl"] += 1
            if v is not None:
                raise HarnessError("sample history of %s violates on replay: %s" % (scn.name, v.msg))
            if len(cov["samples"]) < 8:
                cov["samples"].append(dict(scenario=scn.name, history=trace[-12:], length=len(events)))
        seen_sigs = set()
        for hist, ei, prop, msg, sig in res.violations:
            if sig in seen_sigs:
                continue
            seen_sigs.add(sig)
            events = [scn.menu[i] for i in hist] + [scn.menu[ei]]
            # replay twice from scratch: identical observation or the machinery is broken
            tr1, v1 = engine.replay(scn, events)
            tr2, v2 = engine.replay(scn, events)
            cov["traces_validated_against_impl"] += 2
            if v1 is None or v2 is None or v1.msg != msg or v2.msg != msg or jsonable(tr1) != jsonable(tr2):
                raise HarnessError("violation does not replay deterministically in %s: %r vs %r / %r"
                                   % (scn.name, msg, v1 and v1.msg, v2 and v2.msg))
            payload = dict(property=pid, kind="E1", scenario=scn.name, tier=tier, events=events, message=msg,
                           trace=tr1)
            fid = findings.match(known, pid, scn, payload)
            violations.append(dict(msg=msg, sig=sig, payload=payload, finding=fid, scenario=scn.name))
            if len(violations) >= MAX_REPORTED:
                break
        log("%s %-22s states=%d transitions=%d depth=%d %s%s (%.1fs)"
            % (pid, scn.name, res.states, res.transitions, res.depth_done,
               "fix-point" if res.fixpoint else ("cap: %s" % res.cap_hit if res.cap_hit else "stopped"),
               " violations=%d" % len(res.violations) if res.violations else "", res.wall))

    # ---------------- E2
    if hasattr(mod, "enumerate_inputs"):
        rep = mod.enumerate_inputs(ctx)
        cov["evaluations"] += rep.get("evaluations", 0)
        cov["distinct_nontrivial"] += rep.get("distinct_nontrivial", 0)
        cov["states"] += rep.get("states", 0)
        cov["transitions"] += rep.get("transitions", 0)
        cov["traces_validated_against_impl"] += rep.get("traces_validated_against_impl", 0)
        cov["samples"].extend(rep.get("samples", [])[:8])
        if not rep.get("exhaustive", True):
            cov["exhaustive"] = False
        cov.setdefault("enumerations", []).extend(rep.get("parts", []))
        for v in rep.get("violations", [])[:MAX_REPORTED]:
            payload = dict(property=pid, kind="E2", tier=tier, input=v["input"], message=v["msg"],
                           part=v.get("part"))
            # confirm from a plain call, without the enumerator
            again = mod.replay_input(payload)
            if again != v["msg"]:
                raise HarnessError("E2 violation does not replay: %r vs %r" % (v["msg"], again))
            fid = findings.match(known, pid, None, payload)
            violations.append(dict(msg=v["msg"], sig=v.get("sig", v["msg"]), payload=payload, finding=fid,
                                   scenario=v.get("part", "enumeration")))
        for part in rep.get("parts", []):
            log("%s %-22s %s" % (pid, part.get("name", "?"), ", ".join(
                "%s=%s" % (k, v) for k, v in part.items() if k not in ("name", "histogram") and not isinstance(v, (dict, list)))))

    # ---------------- verdict
    rc = 0
    nviol = 0
    for v in violations:
        if v["finding"] is not None:
            line = "KNOWN-FINDING: property=%s %s [%s] %s" % (pid, v["finding"]["id"], v["scenario"],
                                                             v["finding"]["what"])
            if line not in known_lines:
                known_lines.append(line)
                log(line)
            continue
        path = write_replay(pid, v["payload"])
        log("VIOLATION property=%s replay=%s" % (pid, path))
        log("  " + v["msg"])
        nviol += 1
        rc = 1
    # a dedicated known-finding scenario that no longer fails means the finding is stale: say so (not an alarm)
    for scn in scns:
        if scn.finding and not any(v["scenario"] == scn.name for v in violations):
            log("NOTE property=%s scenario %s is dedicated to known finding %s but no violation occurred "
                "(finding repaired? update known_findings.json)" % (pid, scn.name, scn.finding))

    rule = getattr(mod, "RULE", "")
    if cov["distinct_nontrivial"] == 0 and not nontrivial:
        cov["distinct_nontrivial"] = cov["states"]
    cov["rule"] = rule
    cov["known_findings_reported"] = known_lines
    cov["abstraction_guard"] = guard_note
    from . import harness as _H
    _ps = _H.pristine_pkg_state()
    cov["package_state"] = ("%d module-level / class-level data items and mutable default arguments of the package are "
                            "owned by each world (installed before, captured after every step, part of the canonical "
                            "key); mutable ones on this tree: %s"
                            % (len(_ps), ", ".join(sorted(".".join(k[1:]) for k, v in _ps.items()
                                                          if isinstance(v, (list, dict, set)) or k[0] in "df")) or "none"))
    if not cov["samples"]:
        cov["samples"] = [dict(note="no sample recorded")]
    if cov["states"] == 0:
        for k in ("states", "transitions", "traces_validated_against_impl"):
            cov.pop(k)
    ev = dict(property_id=pid, tier=tier, seed=seed, level="model_checking", coverage=jsonable(cov),
              assumptions=list(getattr(mod, "ASSUMPTIONS", [])), wall_s=round(time.time() - t0, 2),
              violations=nviol)
    os.makedirs(os.path.join(OUT, "evidence"), exist_ok=True)
    with open(os.path.join(OUT, "evidence", pid + ".json"), "w") as fh:
        json.dump(ev, fh, indent=1, sort_keys=True)
        fh.write("\n")
    log("%s %s tier=%s seed=%d states=%s transitions=%s evaluations=%d exhaustive=%s wall=%.1fs"
        % (pid, "FAIL" if rc else "ok", tier, seed, cov.get("states", "-"), cov.get("transitions", "-"),
           cov["evaluations"], cov["exhaustive"], time.time() - t0))
    return rc


def replay_file(pid, path):
    import importlib
    payload = json.load(open(path))
    pid = payload.get("property", pid)
    mod = importlib.import_module("mc.props." + pid.lower())
    if payload.get("kind") == "E2":
        msg = mod.replay_input(payload)
        if msg:
            log("input: %r" % (payload["input"],))
            log("VIOLATION property=%s replay=%s" % (pid, path))
            log("  " + msg)
            return 1
        log("replay of %s: no violation" % path)
        return 0
    scns = {s.name: s for s in mod.scenarios(payload.get("tier", "quick"))}
    scn = scns[payload["scenario"]]
    events = [tuple(e) for e in payload["events"]]
    trace, v = engine.replay(scn, events)
    for row in trace:
        log("  " + json.dumps(jsonable(row)))
    if v is not None:
        log("VIOLATION property=%s replay=%s" % (pid, path))
        log("  " + v.msg)
        return 1
    log("replay of %s: no violation" % path)
    return 0


def selfcheck(seed):
    """Two seeds must give identical state/transition counts; one history replayed twice must give
    identical observations (DESIGN 3.2)."""
    import importlib
    mod = importlib.import_module("mc.props.c11")
    scns = mod.scenarios("quick")
    ids = engine.register(scns)
    a = engine.explore(ids[0], seed=seed)
    b = engine.explore(ids[0], seed=seed + 12345)
    if (a.states, a.transitions, a.fixpoint) != (b.states, b.transitions, b.fixpoint):
        raise HarnessError("exploration depends on VERIF_SEED: %r vs %r" % ((a.states, a.transitions), (b.states, b.transitions)))
    hist = a.sample_hists[0]
    ev = [scns[0].menu[i] for i in hist]
    t1, v1 = engine.replay(scns[0], ev)
    t2, v2 = engine.replay(scns[0], ev)
    if jsonable(t1) != jsonable(t2):
        raise HarnessError("replaying one history twice gave different observations")
    log("selfcheck ok: states=%d transitions=%d identical for two seeds; replay deterministic" % (a.states, a.transitions))
    return 0
