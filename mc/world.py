"""The world explored by E1: a real ExcludeRegionPlugin x reference printers A/B x reference models.

Events (tuples; the first element is the kind):

  file events, rendered into command text from the nominal file model and fed through the plugin's
  gcode.queuing hook exactly as OctoPrint would (process_gcode_line, gcode_and_subcode_for_cmd):
    ("TRAVEL", P) ("PRINT", P) ("TRAVELZ", P, z) ("ZMOVE", z) ("XONLY", P) ("YONLY", P)
    ("RETRACT",) ("RECOVER",) ("WIPE", P) ("FWRETRACT",) ("FWRECOVER",) ("ESET0",)
    ("ARC", name) ("REL",) ("ABS",) ("INCH",) ("MM",) ("RAW", text) ("G92XYZ", dx, dy, dz)
  plugin-level events:
    ("AT", cmd, params[, streaming]) ("ADD", geo_name, id) ("EV", event_name) ("SET", key, value)
    ("API", op, id, geo_name, anonymous) ("GET",) ("SCRIPT", type, name) ("GCODE", text)
    ("NEWPRINT",)  (PrintStarted + homing preamble)

Printer B executes the file, printer A executes what the hook results mean to OctoPrint.  Monitors look
only at observations (hook results, sendCommand traffic, API responses, notifications, A/B), never at
implementation internals; private attributes are read only to build the canonical key.
"""
import copyreg, hashlib, io, json, math, pickle, re, types
from fractions import Fraction as Fr

from . import harness as H
from .engine import Violation, HarnessError
from .ref.printer import Printer
from .ref.rs274 import read, last_values
from .ref import geometry as G

TOL = Fr(1, 10 ** 6)
DTOL = Fr(1, 10 ** 4)     # retraction depths: the inch rendering of a length is itself rounded to 1e-6 in = 2.5e-5 mm

# -------------------------------------------------------------------------------------------------
# geometry catalogue (DESIGN section 5): deliberately asymmetric
GEO = {
    "R": dict(type="RectangularRegion", x1=40, y1=30, x2=60, y2=50),
    "Rrev": dict(type="RectangularRegion", x1=60, y1=50, x2=40, y2=30),      # same area, reversed corners
    "D": dict(type="CircularRegion", cx=52, cy=38, r=10),
    "R2": dict(type="RectangularRegion", x1=65, y1=60, x2=75, y2=70),         # swallows O2
    "R3": dict(type="RectangularRegion", x1=0, y1=55, x2=20, y2=70),          # swallows O3
    "Rneg": dict(type="RectangularRegion", x1=-40, y1=-40, x2=-20, y2=-20),   # a region at negative coordinates
    # registry / shrink catalogue
    "rA": dict(type="RectangularRegion", x1=40, y1=30, x2=60, y2=50),
    "rBig": dict(type="RectangularRegion", x1=30, y1=20, x2=70, y2=60),
    "rSmall": dict(type="RectangularRegion", x1=45, y1=35, x2=55, y2=45),
    "rShift": dict(type="RectangularRegion", x1=41, y1=30, x2=61, y2=50),
    "cIn": dict(type="CircularRegion", cx=50, cy=40, r=5),
    "cBig": dict(type="CircularRegion", cx=50, cy=40, r=30),
    "cTouch": dict(type="CircularRegion", cx=50, cy=40, r=10),               # inscribed in rA
    "cOut": dict(type="CircularRegion", cx=50, cy=40, r=15),                 # covers rA's corners? no (d=14.14<15 yes)
    "rFine": dict(type="RectangularRegion", x1=41.35483870967742, y1=30.123456789, x2=60.5, y2=49.99999),
    "cFine": dict(type="CircularRegion", cx=50.123456789, cy=39.87654321, r=4.000049),
    "Foo": dict(type="Foo"),
}
POINTS = {
    "O1": (10, 10), "O2": (70, 65), "O3": (10, 62),
    "I1": (50, 40), "I2": (55, 35),
    "Bd": (58, 46),         # exactly on D's border (6-8-10), inside R
    "Br": (40, 42),         # on R's border
    "N": (39, 42),          # 1 mm outside R
    "H": (Fr(121, 2), 42),  # 0.5 mm outside R (inside D)
    "Org": (0, 0),          # the bed origin: coordinates that are exactly zero
    "Q": (35, 25),          # outside R by 5 mm; (10,10)+Q lands inside R (offsets mistaken for coordinates)
    "Ng": (-30, -30),       # negative coordinates (centre-origin beds, purge lines): inside Rneg
    "Ngo": (-10, -3),       # negative coordinates, outside every region
    "Eps": (Fr("39.996"), 42),      # 4 micrometres outside R's left border
    "F3": (Fr("70.014"), Fr("65.004")),   # three decimals, outside every region
}
# arcs: name -> (start point, end point, I, J, clockwise); absolute mm only
ARCS = {
    # from O1 (10,10) to (10,30) centre (10,20): radius 10, stays x in [0,20]: clear of everything
    "clear": ("O1", (10, 30), 0, 10, False),
    # from O1 (10,10) to (90,10) centre (50,10) r 40, counter-clockwise sweeps through y<10: clear;
    # clockwise sweeps over the top through (50,50): crosses R and D, ends outside
    "cross": ("O1", (90, 10), 40, 0, True),
    "under": ("O1", (90, 10), 40, 0, False),
    # from O2 (70,65) ending inside R at (50,45): centre (50,65) r 20, ccw from angle 0 to -90 => cw
    "into": ("O2", (50, 45), -20, 0, True),
}
MOVE_CODES = ("G0", "G1", "G2", "G3")
END_EVENTS = ("PRINT_DONE", "PRINT_FAILED", "PRINT_CANCELLING", "PRINT_CANCELLED", "ERROR")
SKIP_ATTRS = {"_logger", "excludeStartTime", "numCommands", "numExcludedCommands", "gcodeParser"}
PLUGIN_SKIP = {"_settings", "_plugin_manager", "_logger", "_identifier", "_plugin_name", "_plugin_version",
               "_pluginLoggingHandler", "_loggingMode", "state", "gcodeHandlers"}


def fmt(v):
    """Plain decimal rendering as slicers do: integers as such, otherwise at most six decimals."""
    v = Fr(v)
    if v.denominator == 1:
        return str(v.numerator)
    q = Fr(round(v * 10 ** 6), 10 ** 6)
    sign = "-" if q < 0 else ""
    q = abs(q)
    ip = q.numerator // q.denominator
    fp = q - ip
    digits = str(int(fp * 10 ** 6)).rjust(6, "0").rstrip("0")
    return sign + str(ip) + ("." + digits if digits else "")


# Copies of a world are made by pickling.  Implementation state may hold objects the pickle module refuses although
# copying them by reference is exact (functions defined inside a function, lambdas: immutable code).  Those are
# carried by persistent id through a per-process table; everything else is pickled by value as usual.
_FN_TABLE = {}
_EMPTY_CELL = "__empty_cell__"


def _is_local_fn(obj):
    return isinstance(obj, types.FunctionType) and ("<locals>" in obj.__qualname__ or obj.__name__ == "<lambda>")


def _make_fn(code, modname, name, qualname, ncells):
    import sys
    cells = tuple(types.CellType() for _ in range(ncells))
    f = types.FunctionType(code, sys.modules[modname].__dict__, name, None, cells)
    f.__qualname__ = qualname
    return f


def _set_fn_state(f, state):
    defaults, kwdefaults, cellvals, d = state
    f.__defaults__ = defaults
    f.__kwdefaults__ = kwdefaults
    for c, v in zip(f.__closure__ or (), cellvals):
        if not (isinstance(v, str) and v == _EMPTY_CELL):
            c.cell_contents = v
    f.__dict__.update(d)


class _Pickler(pickle.Pickler):
    def persistent_id(self, obj):
        if isinstance(obj, types.CodeType) or (_is_local_fn(obj) and not obj.__closure__):
            _FN_TABLE[id(obj)] = obj          # immutable: carried by reference
            return ("fn", id(obj))
        return None

    def reducer_override(self, obj):
        if _is_local_fn(obj) and obj.__closure__:
            # a closure is copied by value: its cells may hold the very objects that are being copied (self)
            vals = []
            for c in obj.__closure__:
                try:
                    vals.append(c.cell_contents)
                except ValueError:
                    vals.append(_EMPTY_CELL)
            return (_make_fn, (obj.__code__, obj.__module__, obj.__name__, obj.__qualname__, len(vals)),
                    (obj.__defaults__, obj.__kwdefaults__, tuple(vals), dict(obj.__dict__)), None, None, _set_fn_state)
        return NotImplemented


class _Unpickler(pickle.Unpickler):
    def persistent_load(self, pid):
        return _FN_TABLE[pid[1]]


def dumps(obj):
    try:
        return pickle.dumps(obj, -1)
    except (pickle.PicklingError, AttributeError, TypeError):
        buf = io.BytesIO()
        _Pickler(buf, -1).dump(obj)
        return buf.getvalue()


def loads(data):
    return _Unpickler(io.BytesIO(data)).load()


def _new_plugin():
    p = H.PKG.ExcludeRegionPlugin.__new__(H.PKG.ExcludeRegionPlugin)
    p._settings = _shared_settings()
    return p


def _reduce_plugin(p):
    # everything the plugin object holds except OctoPrint's settings object (process-wide, re-attached on load); going
    # through the object itself (not its dict) keeps bound methods and closures stored in the state pointing at the copy
    d = dict(p.__dict__)
    d.pop("_settings", None)
    return (_new_plugin, (), d)


copyreg.pickle(H.PKG.ExcludeRegionPlugin, _reduce_plugin)


def walk(o):
    """Canonical text of an object graph by generic attribute walk (DESIGN 3.3)."""
    if o is None or isinstance(o, (bool, int, str)):
        return repr(o)
    if isinstance(o, float):
        if o > 1e9 and o < 1e11:
            return "<timestamp>"          # wall-clock values (time.time()) are never part of the filter's state
        return repr(o)
    if isinstance(o, Fr):
        return "%d/%d" % (o.numerator, o.denominator)
    if isinstance(o, (list, tuple)):
        return "[" + ",".join(walk(x) for x in o) + "]"
    if isinstance(o, dict):                       # insertion order is state (pendingCommands)
        return "{" + ",".join(walk(k) + ":" + walk(v) for k, v in o.items()) + "}"
    if isinstance(o, (set, frozenset)):
        return "set(" + ",".join(sorted(walk(x) for x in o)) + ")"
    if hasattr(o, "pattern") and hasattr(o, "match"):
        return "re:" + repr(o.pattern)
    d = getattr(o, "__dict__", None)
    if d is None and hasattr(type(o), "__slots__"):
        d = {k: getattr(o, k) for k in type(o).__slots__ if hasattr(o, k)}
    if d is not None:
        return o.__class__.__name__ + "{" + ",".join(
            k + ":" + walk(v) for k, v in sorted(d.items()) if k not in SKIP_ATTRS) + "}"
    if callable(o):
        txt = "callable:" + getattr(o, "__name__", o.__class__.__name__)
        cl = getattr(o, "__closure__", None)
        if cl:
            # data captured by a closure is state; objects of the package captured by it (self) are walked where they live
            for c in cl:
                try:
                    v = c.cell_contents
                except ValueError:
                    continue
                if v is None or isinstance(v, (bool, int, float, str, list, tuple, dict, set, frozenset)):
                    txt += "<" + walk(v) + ">"
        return txt
    if hasattr(o, "__next__"):
        # a live iterator kept in the state (filter/map/list iterator): what it will still yield is state
        try:
            red = o.__reduce__()
        except Exception:   # noqa
            red = None
        if isinstance(red, tuple):
            return "iter:" + o.__class__.__name__ + walk(list(red))
    return o.__class__.__name__


SKIP_PKG = set()        # (module stem, name) of module-level variables that are only updated and logged (staticguard)


def pkg_text(d):
    return ";".join("%s=%s" % (".".join(k[1:]), walk(v)) for k, v in sorted(d.items())
                    if not (k[0] == "m" and ((k[1].rsplit(".", 1)[-1] if "." in k[1] else "__init__"), k[2]) in SKIP_PKG))


def plugin_key_text(p):
    parts = [walk(p.state)]
    for k, v in sorted(p.__dict__.items()):
        if k not in PLUGIN_SKIP:
            parts.append(k + "=" + walk(v))
    gh = p.gcodeHandlers
    for k, v in sorted(gh.__dict__.items()):
        if k not in ("_logger", "state", "gcodeParser"):
            parts.append("gh." + k + "=" + walk(v))
    if gh.state is not p.state:
        parts.append("gh.state=" + walk(gh.state))
    return "|".join(parts)


def norm_regions(lst):
    out = []
    for r in lst:
        if r.get("type") == "RectangularRegion":
            r = dict(r)
            if not G.is_degenerate(dict(r, x1=float(r["x1"]), x2=float(r["x2"]), y1=float(r["y1"]), y2=float(r["y2"]))):
                r["x1"], r["x2"] = sorted((float(r["x1"]), float(r["x2"])))
                r["y1"], r["y2"] = sorted((float(r["y1"]), float(r["y2"])))
        out.append(tuple(sorted((k, repr(float(v)) if isinstance(v, (int, float)) and not isinstance(v, bool) else v)
                                for k, v in r.items())))
    return out


class Feed(object):
    """One invocation of a hook, with everything observable about it."""
    __slots__ = ("kind", "cmd", "result", "fwd", "sent", "B0", "B1", "A0", "atrace", "code", "words",
                 "is_move", "dest_in", "opening", "closing", "episode0", "episode1", "enabled0", "enabled1",
                 "active", "arc_hit", "regions", "refed", "k0", "k1", "contrib")

    def __init__(self, kind, cmd):
        self.kind = kind
        self.cmd = cmd
        self.result = None
        self.fwd = []
        self.sent = []
        self.atrace = []
        self.code = None
        self.words = []
        self.is_move = self.dest_in = self.opening = self.closing = False
        self.arc_hit = False
        self.refed = []
        self.k0 = self.k1 = None
        self.contrib = None


class Step(object):
    __slots__ = ("ev", "feeds", "response", "msgs", "note", "tags", "before")

    def __init__(self, ev):
        self.ev = ev
        self.feeds = []
        self.response = None
        self.msgs = []
        self.note = None
        self.tags = set()
        self.before = []


def arc_points(B0, words, cw):
    """Fine samples (float, physical mm) of the true arc a Marlin-like firmware would trace, or None."""
    w = last_values(words)
    sx, sy = float(B0.p["X"]), float(B0.p["Y"])
    unit = float(B0.unit)
    def tgt(ax, cur):
        if ax not in w:
            return cur
        v = float(w[ax]) * unit
        return v + float(B0.shift[ax]) if B0.abs else cur + v
    ex, ey = tgt("X", sx), tgt("Y", sy)
    if "R" in w:
        r = float(w["R"]) * unit
        dx, dy = ex - sx, ey - sy
        d = math.hypot(dx, dy)
        if r == 0 or d == 0 or abs(r) < d / 2:
            return None
        h = math.sqrt(max(0.0, r * r - d * d / 4))
        e = -1 if (cw ^ (r < 0)) else 1
        cx = (sx + ex) / 2 + e * h * (-dy / d)
        cy = (sy + ey) / 2 + e * h * (dx / d)
    else:
        i = float(w.get("I", 0)) * unit
        j = float(w.get("J", 0)) * unit
        if i == 0 and j == 0:
            return None
        cx, cy = sx + i, sy + j
    rad = math.hypot(sx - cx, sy - cy)
    a0 = math.atan2(sy - cy, sx - cx)
    a1 = math.atan2(ey - cy, ex - cx)
    sweep = a1 - a0
    if cw:
        while sweep >= 0:
            sweep -= 2 * math.pi
    else:
        while sweep <= 0:
            sweep += 2 * math.pi
    n = max(8, int(abs(sweep) * rad / 0.05))
    pts = [(cx + rad * math.cos(a0 + sweep * k / n), cy + rad * math.sin(a0 + sweep * k / n)) for k in range(n)]
    pts.append((ex, ey))
    return pts


def float_inside(regions, x, y, margin=0.0):
    for g in regions:
        if g["type"] == "RectangularRegion":
            x1, x2 = sorted((g["x1"], g["x2"]))
            y1, y2 = sorted((g["y1"], g["y2"]))
            if x1 - margin <= x <= x2 + margin and y1 - margin <= y <= y2 + margin:
                return True
        elif g["type"] == "CircularRegion":
            if math.hypot(x - g["cx"], y - g["cy"]) <= g["r"] + margin:
                return True
    return False


class World(object):
    # ------------------------------------------------------------------------------ construction
    def __init__(self, cfg):
        self.cfg = cfg
        self.prop = cfg.get("prop", "C00")
        self.monitors = tuple(cfg.get("monitors", ()))
        self.sv = H.SettingsValues(clear=cfg.get("clear", False), shrink=cfg.get("shrink", False),
                                   g90e=cfg.get("g90e", False), enter=cfg.get("enter"), exit=cfg.get("exit"),
                                   ext=cfg.get("ext"), at=cfg.get("at"))
        self.uuid = H.Uuid()
        self.pm = H.PluginManager()
        self.comm = H.Comm()
        self.pkg = H.pristine_pkg_state()      # module-level / class-level state of the package, owned by this world
        self.install()
        self.plugin = H.new_plugin(self.sv, self.pm)
        # reference models -------------------------------------------------------------------
        self.m_active = False
        self.m_regions = []              # API-format dicts incl. id, in list order
        self.m_clear = self.sv.clear
        self.m_shrink = self.sv.shrink
        self.m_homed = False             # tracker knows its position (G28 since the last reset)
        self.m_enabled = True            # exclusion enabled (reference flag from @-commands)
        self.episode = False
        self.A = Printer(self.sv.g90e)
        self.B = Printer(self.sv.g90e)
        # nominal file model (exact, used for rendering and enabledness only)
        self.f = dict(x=None, y=None, z=None, e=Fr(0), depth=0, fw=False, abs=True, inch=False,
                      sx=Fr(0), sy=Fr(0), sz=Fr(0), shifted=False)
        # monitor state
        self.max_depth_b = Fr(0)
        self.file_g10 = None
        self.mon = {}                    # free-form per-monitor state (picklable, part of the key)
        self.last_detail = None
        self.pm.msgs = []
        for name in cfg.get("regions", ()):
            self._api("add", name.lower(), name, False, Step(None), check=False)
        if cfg.get("start", True):
            self._event("PRINT_STARTED", Step(None), check=False)
            for c in cfg.get("preamble", ("G28", "G1 X10 Y10 Z1 F3000")):
                self._gcode(c, Step(None), check=False)
            ox, oy = cfg.get("origin", (10, 10))
            self.f.update(x=Fr(ox), y=Fr(oy), z=Fr(1))
        self.pm.msgs = []
        self.pkg = H.capture_pkg_state()

    def install(self):
        H.install_uuid(self.uuid)
        H.install_pkg_state(self.pkg)

    # ------------------------------------------------------------------------------ snapshots
    def __getstate__(self):
        d = dict(self.__dict__)
        d.pop("cfg")
        return d           # the plugin object is pickled through _reduce_plugin (registered below)

    def __setstate__(self, d):
        self.__dict__.update(d)

    def snapshot(self):
        return dumps(self)

    @classmethod
    def needs_replay(cls):
        return bool(H.opaque_caches())

    @classmethod
    def reset_process_state(cls):
        H.clear_opaque_caches()

    @classmethod
    def restore(cls, snap, cfg, keep_caches=False):
        w = loads(snap)
        w.cfg = cfg
        w.install()
        if not keep_caches:
            H.clear_opaque_caches()      # what cannot be copied starts empty (no-op on the pinned tree)
        return w

    # ------------------------------------------------------------------------------ keys
    def model_key(self):
        f = self.f
        # physical retraction depth is observable only by the C04/C05/C07 monitors
        depth = self.cfg.get("key_depth", True)
        return (self.m_active, walk(self.m_regions), self.m_clear, self.m_shrink, self.m_homed, self.m_enabled,
                self.episode, self.A.key(depth), self.B.key(depth), tuple(sorted(f.items())),
                self.max_depth_b if depth else None,
                self.file_g10, walk(sorted(self.mon.items())), self.uuid.n, walk(self.sv.__dict__))

    def key(self):
        h = hashlib.blake2b(digest_size=16)
        h.update(plugin_key_text(self.plugin).encode())
        h.update(repr(self.model_key()).encode())
        h.update(self.pkg_key_text().encode())
        oc = H.opaque_caches()
        if oc:
            # contents of lru_cache wrappers cannot be read: their counters refine the key (approximate de-duplication)
            h.update(repr([(k, tuple(w.cache_info())) for k, w in oc]).encode())
        return h.digest()

    def pkg_key_text(self):
        return pkg_text(self.pkg)

    def impl_key(self):
        return hashlib.blake2b((plugin_key_text(self.plugin) + "#" + self.pkg_key_text()).encode(), digest_size=16).digest()

    # ------------------------------------------------------------------------------ helpers
    def viol(self, msg, detail=None):
        self.last_detail = detail
        raise Violation(self.prop, msg)

    def regions_impl(self):
        return [dict(r.toDict()) for r in self.plugin.state.excludedRegions]

    def call(self, fn, *a, **kw):
        """Call into the implementation; an exception there is a property violation, not a harness error."""
        try:
            return fn(*a, **kw)
        except Exception as e:       # noqa
            import traceback
            tb = traceback.extract_tb(e.__traceback__)
            where = "%s:%d" % (tb[-1].filename.split("/")[-1], tb[-1].lineno) if tb else "?"
            self.viol("implementation raised %s: %s (at %s)" % (type(e).__name__, e, where))

    # ------------------------------------------------------------------------------ rendering
    def _word(self, ax, target):
        f = self.f
        unit = G.F(Fr(254, 10) if f["inch"] else 1)
        key = ax.lower()
        if f["abs"]:
            v = (Fr(target) - f["s" + key]) / unit
        else:
            v = (Fr(target) - f[key]) / unit
        return ax + fmt(v)

    def _eword(self, target_e):
        f = self.f
        unit = Fr(254, 10) if f["inch"] else Fr(1)
        eabs = f["abs"] or not self.sv.g90e
        v = (Fr(target_e) / unit) if eabs else ((Fr(target_e) - f["e"]) / unit)
        return "E" + fmt(v)

    def estep(self):
        return Fr(self.cfg.get("estep", 1))

    def pt(self, name):
        x, y = self.cfg.get("points", POINTS)[name]
        return Fr(x), Fr(y)

    def render(self, ev):
        """Command text for a file event, and the update of the nominal file model it implies."""
        k = ev[0]
        f = self.f
        L = Fr(self.cfg.get("retract", 1))
        if k == "NUDGE":
            ax = ev[1].lower()
            return "G1 %s%s" % (ev[1], ev[2]), {ax: f[ax] + Fr(ev[2]) * (Fr(254, 10) if f["inch"] else 1)}
        if k == "HOME":
            # ev[1]: the words of the G28 command; the axes homed are the X/Y/Z among them, or all three if
            # none is named (a flag such as W or O does not select an axis)
            axes = [a for a in ev[1] if a in "XYZ"] or list("XYZ")
            upd = {}
            for a in axes:
                upd[a.lower()] = Fr(0)
                upd["s" + a.lower()] = Fr(0)
            return "G28 " + " ".join(ev[1]), upd
        if k == "ESET":
            unit = Fr(254, 10) if f["inch"] else Fr(1)
            return "G92 E" + ev[1], dict(e=Fr(ev[1]) * unit)
        if k in ("TRAVEL", "PRINT", "WIPE", "TRAVELZ", "TRAVELE"):
            x, y = self.pt(ev[1])
            words = [self._word("X", x), self._word("Y", y)]
            upd = dict(x=x, y=y)
            if k == "TRAVELE":
                # a travel move that repeats the current E value (some slicers write E on every line): no filament moves
                words.append(self._eword(f["e"]))
            if k == "TRAVELZ":
                words.append(self._word("Z", ev[2]))
                upd["z"] = Fr(ev[2])
            if k == "PRINT":
                words.append(self._eword(f["e"] + self.estep()))
                upd["e"] = f["e"] + self.estep()
            if k == "WIPE":
                words.append(self._eword(f["e"] - L))
                upd["e"] = f["e"] - L
                upd["depth"] = f["depth"] + 1
            return ("G0 " if k in ("TRAVEL", "TRAVELZ", "TRAVELE") else "G1 ") + " ".join(words), upd
        if k == "ZMOVE":
            return "G1 " + self._word("Z", ev[1]), dict(z=Fr(ev[1]))
        if k == "XONLY":
            x, _ = self.pt(ev[1])
            return "G0 " + self._word("X", x), dict(x=x)
        if k == "YONLY":
            _, y = self.pt(ev[1])
            return "G0 " + self._word("Y", y), dict(y=y)
        if k == "RETRACT":
            return "G1 " + self._eword(f["e"] - L) + " F1800", dict(e=f["e"] - L, depth=f["depth"] + 1)
        if k == "RECOVER":
            return "G1 " + self._eword(f["e"] + L) + " F1800", dict(e=f["e"] + L, depth=f["depth"] - 1)
        if k == "FWRETRACT":        # ("FWRETRACT", spelling) overrides the scenario's spelling
            return (ev[1] if len(ev) > 1 else self.cfg.get("fw_retract", "G10 S1")), dict(fw=True)
        if k == "FWRECOVER":
            return (ev[1] if len(ev) > 1 else self.cfg.get("fw_recover", "G11 S1")), dict(fw=False)
        if k == "ESET0":
            return "G92 E0", dict(e=Fr(0))
        if k == "ARC":
            start, end, i, j, cw = ARCS[ev[1]]
            if f["abs"]:
                xw, yw = fmt(end[0] - f["sx"]), fmt(end[1] - f["sy"])
            else:
                xw, yw = fmt(end[0] - f["x"]), fmt(end[1] - f["y"])
            # zero centre-offset words are left out, as CAM post-processors do (a missing I/J word means 0)
            ij = " ".join(w for w in ("I" + fmt(i) if i else "", "J" + fmt(j) if j else "") if w)
            extra, upd = "", dict(x=Fr(end[0]), y=Fr(end[1]))
            if len(ev) > 2 and "E" in ev[2]:          # printing arc
                extra += " " + self._eword(f["e"] + self.estep())
                upd["e"] = f["e"] + self.estep()
            if len(ev) > 2 and "Z" in ev[2]:          # helical arc: ends one unit higher (or back at 1)
                z = Fr(2) if f["z"] != 2 else Fr(1)
                extra += " " + self._word("Z", z)
                upd["z"] = z
            return "%s X%s Y%s %s%s" % ("G2" if cw else "G3", xw, yw, ij, extra), upd
        if k == "CIRCLE":
            # full circle around (x+I, y+J) without X/Y words: the same command text means a different circle
            # wherever it is issued
            ij = " ".join(w for w in ("I" + fmt(ev[1]) if ev[1] else "", "J" + fmt(ev[2]) if ev[2] else "") if w)
            return "G3 " + ij, {}
        if k == "REL":
            return "G91", dict(abs=False)
        if k == "ABS":
            return "G90", dict(abs=True)
        if k == "INCH":
            return "G20", dict(inch=True)
        if k == "MM":
            return "G21", dict(inch=False)
        if k == "G92XYZ":
            # declare the current position to be (x+dx, y+dy, z+dz) in logical terms
            unit = Fr(254, 10) if f["inch"] else Fr(1)
            words, upd = [], dict(shifted=True)
            for ax, d in zip("xyz", ev[1:4]):
                if d:
                    logical_now = f[ax] - f["s" + ax]
                    words.append(ax.upper() + fmt((logical_now + d) / unit))
                    upd["s" + ax] = f["s" + ax] - d
            return "G92 " + " ".join(words), upd
        if k in ("RAW", "GCODE"):
            return ev[1], {}
        raise KeyError(ev)

    # ------------------------------------------------------------------------------ enabledness
    def enabled(self, menu):
        out = []
        f = self.f
        emax = Fr(self.cfg.get("emax", 3))
        maxreg = self.cfg.get("maxregions", 3)
        for i, ev in enumerate(menu):
            k = ev[0]
            if k in ("TRAVEL", "PRINT", "WIPE", "TRAVELZ", "TRAVELE", "ZMOVE", "XONLY", "YONLY", "ARC", "RETRACT",
                     "RECOVER", "FWRETRACT", "FWRECOVER", "G92XYZ", "NUDGE", "ESET", "HOME", "CIRCLE"):
                if not (self.m_active and self.m_homed):
                    continue                               # the properties say "after homing"
            if k in ("TRAVEL", "PRINT", "WIPE", "TRAVELE"):
                if self.pt(ev[1]) == (f["x"], f["y"]):
                    continue
            if k == "TRAVELE" and not f["abs"] and self.sv.g90e:
                continue                                   # with relative E the word would be E0: a different spelling
            if k == "SET" and ev[1] == "g90e" and (not f["abs"] or self.episode):
                continue     # the flag says how G90/G91 are read: switched only while the file is in G90 (both readings agree)
            if k == "TRAVELZ" and self.pt(ev[1]) == (f["x"], f["y"]) and Fr(ev[2]) == f["z"]:
                continue
            if k == "ZMOVE" and Fr(ev[1]) == f["z"]:
                continue
            if k == "XONLY" and self.pt(ev[1])[0] == f["x"]:
                continue
            if k == "YONLY" and self.pt(ev[1])[1] == f["y"]:
                continue
            if k in ("RETRACT", "WIPE") and (f["depth"] != 0 or f["fw"]):
                continue
            if k == "RECOVER" and f["depth"] != 1:
                continue
            if k == "PRINT" and (f["depth"] != 0 or f["fw"]):
                continue
            if k in ("PRINT", "RECOVER") and f["e"] >= emax:
                continue
            if k == "NUDGE" and (f["abs"] or abs(f[ev[1].lower()] + Fr(ev[2]) - Fr(round(f[ev[1].lower()]))) > 1):
                continue                                   # stay within 1 mm of the named point
            if k == "ESET" and (not (f["abs"] or not self.sv.g90e) or f["depth"] != 0):
                continue
            if k == "ESET0" and (f["e"] == 0 or not (f["abs"] or not self.sv.g90e)):
                continue
            if k == "FWRETRACT" and (f["fw"] or f["depth"] != 0):
                continue
            if k == "FWRECOVER" and not f["fw"]:
                continue
            if k == "CIRCLE" and (not f["abs"] or f["inch"] or self.episode):
                continue
            if k == "ARC" and len(ev) > 2 and "E" in ev[2] and (f["depth"] != 0 or f["fw"] or f["e"] >= emax):
                continue
            if k == "ARC":
                start = ARCS[ev[1]][0]
                if (not f["abs"] and not self.cfg.get("relarcs")) or f["inch"] or \
                        self.pt(start) != (f["x"], f["y"]):
                    continue
            rep = self.cfg.get("repeat_modes")       # G90 after G90 etc. are legal no-ops
            if k == "REL" and not f["abs"] and not rep:
                continue
            if k == "ABS" and f["abs"] and not rep:
                continue
            if k == "INCH" and f["inch"] and not rep:
                continue
            if k == "MM" and not f["inch"] and not rep:
                continue
            if k == "G92XYZ" and (self.episode or f["shifted"]):
                continue
            if k == "HOME" and (self.episode or all(f[a.lower()] == 0 for a in
                                                     ([a for a in ev[1] if a in "XYZ"] or "XYZ"))):
                continue                                   # no homing while an episode is open (C03's premise)
            if k == "AT" and self.cfg.get("at_toggle_only", True):
                act = self._at_reference(ev[1], ev[2])
                if len(ev) > 3 and ev[3]:
                    pass
                elif act == ["disable"] and not self.m_enabled:
                    continue
                elif act == ["enable"] and self.m_enabled:
                    continue
            if k == "ADD":
                if any(r["id"] == ev[2] for r in self.m_regions) or len(self.m_regions) >= maxreg:
                    continue
            if k == "API" and ev[1] == "add":
                if len(self.m_regions) >= maxreg:
                    continue
                if ev[2] is None and self.uuid.n >= self.cfg.get("maxfresh", 2):
                    continue
            if k in ("SET", "SETBAD"):
                cur = {"c": self.m_clear, "m": self.m_shrink, "g": self.sv.g90e, "s": "always"}[ev[1][0]]
                if cur == ev[2]:
                    continue
            if k == "NEWPRINT" and not self.cfg.get("newprint", True):
                continue
            if k == "SETEXT":
                cur = tuple((e["gcode"], e["mode"]) for e in self.sv.ext)
                if cur == tuple(ev[1]) or self.episode:
                    continue       # the list is not changed while an episode is open (outside C06's quantifier)
            if k == "SETSCRIPT":
                if (self.sv.enter, self.sv.exit) == (ev[1], ev[2]) or self.episode:
                    continue
            if k == "SETAT":
                if self.sv.at == self.cfg["at_tables"][ev[1]] or self.episode:
                    continue
            guard = self.cfg.get("guard")
            if guard is not None and not guard(self, ev):
                continue
            out.append(i)
        return out

    # ------------------------------------------------------------------------------ stepping
    def step(self, ev):
        self.install()
        try:
            return self._step(ev)
        finally:
            if ev[0] in ("C10CHECK", "TRACKPROBE"):
                self.install()           # probes work on copies, which install their own package state
            self.pkg = H.capture_pkg_state()

    def _step(self, ev):
        H.set_user(False)
        st = Step(ev)
        self.pm.msgs = []
        st.before = self.regions_impl()
        k = ev[0]
        if k == "C10CHECK":
            self._c10_check(st)
        elif k == "TRACKPROBE":
            self._track_probe(st)
        elif k == "AT":
            self._at(ev[1], ev[2], len(ev) > 3 and ev[3], st)
        elif k == "ADD":
            self._api("add", ev[2], ev[1], False, st)
        elif k == "EV":
            self._event(ev[1], st, payload=(ev[2] if len(ev) > 2 else None))
        elif k == "GCODET":
            # a command that an earlier plugin's queuing hook has rewritten: OctoPrint adds these tags
            self._gcode(ev[1], st, tags={"source:file", "source:rewrite", "phase:queuing", "plugin:otherplugin"})
        elif k == "SET":
            self._set(ev[1], ev[2], st)
        elif k == "SETBAD":
            # a settings save that also stores an @-command pattern the browser accepts but Python's re rejects:
            # the plugin's handler raises on every settings update from now on (OctoPrint's event bus logs that and
            # goes on); the stored value of the boolean is what must govern the behaviour
            self._set_values(ev[1], ev[2])
            self.sv.at = [a for a in self.sv.at if a.get("command") != "Broken"] + [
                {"command": "Broken", "parameterPattern": "^\\s*(?<what>on|off)\\b", "action": "enable_exclusion",
                 "description": ""}]
            H.push_settings(self.plugin, self.sv)
            try:
                self.plugin.on_event(H.Events.SETTINGS_UPDATED, {})
            except Exception:   # noqa  (logged by OctoPrint's event bus)
                st.tags.add("settings-handler-raised")
        elif k == "SETEXT":
            # ev[1]: tuple of (gcode, mode) pairs replacing the configured list of extended codes
            self.sv.ext = [dict(gcode=g, mode=m, description="") for g, m in ev[1]]
            H.push_settings(self.plugin, self.sv)
            self.call(self.plugin.on_event, H.Events.SETTINGS_UPDATED, {})
        elif k == "SETSCRIPT":
            # enter / exit script replaced (or removed: None, "", comment only) through the settings
            self.sv.enter, self.sv.exit = ev[1], ev[2]
            H.push_settings(self.plugin, self.sv)
            self.call(self.plugin.on_event, H.Events.SETTINGS_UPDATED, {})
        elif k == "SETAT":
            # the table of @-command actions is replaced through the settings (cfg["at_tables"][name])
            self.sv.at = [dict(a) for a in self.cfg["at_tables"][ev[1]]]
            H.push_settings(self.plugin, self.sv)
            self.call(self.plugin.on_event, H.Events.SETTINGS_UPDATED, {})
        elif k == "API":
            self._api(ev[1], ev[2], ev[3], ev[4], st)
        elif k == "GET":
            self._get(st)
        elif k == "SCRIPT":
            self._script(ev[1], ev[2], st)
        elif k == "NEWPRINT":
            self._event("PRINT_STARTED", st, payload=(ev[1] if len(ev) > 1 else None))
            # the plugin assumes firmware defaults (mm, absolute) at the start of every print; the reference
            # printers model the same convention: the machine is reset between jobs
            for pr in (self.A, self.B):
                pr.abs = True
                pr.eabs = True
                pr.unit = Fr(1)
            for c in ("G28", "G1 X10 Y10 Z1 F3000", "G92 E0"):
                self._gcode(c, st)
            # both printers start the new job from the same physical state
            self.A = self.B.copy()
            self.max_depth_b = Fr(0)
            self.f.update(x=Fr(10), y=Fr(10), z=Fr(1), e=Fr(0), depth=0, fw=False, abs=True, inch=False,
                          sx=Fr(0), sy=Fr(0), sz=Fr(0), shifted=False)
        else:
            cmd, upd = self.render(ev)
            self._gcode(cmd, st)
            self.f.update(upd)
        st.msgs = list(self.pm.msgs)
        self._registry_checks(st)
        for name in self.monitors:
            getattr(self, "_mon_" + name)(st)
        return st

    # ---- gcode through the queuing hook
    def _gcode(self, line, st, check=True, tags=None):
        cmd = H.process_gcode_line(line)
        if not cmd:
            return None
        gcode, subcode = H.gcode_and_subcode_for_cmd(cmd)
        f = Feed("gcode", cmd)
        st.feeds.append(f)
        A, B = self.A, self.B
        f.B0 = B.copy()
        f.A0 = A.copy()
        f.active = self.m_active
        f.enabled0 = f.enabled1 = self.m_enabled
        f.episode0 = self.episode
        f.regions = list(self.m_regions)
        code, sub, words, junk = read(cmd)
        f.code, f.words = code, words
        B.execute(cmd)
        f.B1 = B.copy()
        w = last_values(words)
        if self.m_active and code in MOVE_CODES:
            if code in ("G2", "G3"):
                pts = arc_points(f.B0, words, code == "G2") if f.B0.p["X"] is not None else None
                f.is_move = pts is not None
                if pts is not None and self.m_enabled:
                    f.arc_hit = any(float_inside(self.m_regions, x, y) for x, y in pts)
            else:
                f.is_move = any(a in w for a in "XYZ")
        if f.is_move and B.p["X"] is not None:
            f.dest_in = self.m_enabled and (G.any_contains(self.m_regions, B.p["X"], B.p["Y"]) or f.arc_hit)
            if f.dest_in:
                f.opening = not self.episode
                self.episode = True
            elif self.episode:
                f.closing = True
                self.episode = False
        f.episode1 = self.episode
        if self.m_active and code == "G28":
            present = set(l for l, _ in words)
            if not (present & set("XYZ")) or set("XYZ") <= present:
                self.m_homed = True
        self.comm.sent = []
        self.comm.streaming = False
        track = self.cfg.get("track_keys") or not self.m_active
        if track:
            f.k0 = self.impl_key()
        f.result = self.call(self.plugin.handleGcodeQueuing, self.comm, "queuing", cmd, None, gcode, subcode,
                             tags=set(tags or ()))
        if track:
            f.k1 = self.impl_key()
        f.sent = list(self.comm.sent)
        try:
            f.fwd = H.decode(cmd, f.result)
        except Exception as e:   # noqa
            self.viol("hook result has an undecodable shape: %r (%s)" % (f.result, e))
        for c in f.fwd:
            if not isinstance(c, str):
                self.viol("hook result contains a non-string command: %r" % (f.result,))
            a0 = A.copy()
            A.execute(c)
            f.atrace.append((c, a0, A.copy()))
        self.max_depth_b = max(self.max_depth_b, B.depth())
        if code == "G10" and not (set(l for l, _ in words) & set("PL")):
            self.file_g10 = cmd
        return f

    # ---- @-commands through the atcommand.queuing hook
    def _at_reference(self, cmd, params):
        """Actions a configured @-command triggers, from the configured patterns alone."""
        acts = []
        for a in self.sv.at:
            if a["command"] == cmd:
                pat = a.get("parameterPattern")
                if pat is None or re.compile(pat).match(params or ""):
                    acts.append("enable" if a["action"] == "enable_exclusion" else "disable")
        return acts

    def _at(self, cmd, params, streaming, st, check=True):
        f = Feed("at", "@" + cmd + (" " + params if params else ""))
        st.feeds.append(f)
        A, B = self.A, self.B
        f.B0 = f.B1 = B.copy()
        f.A0 = A.copy()
        f.active = self.m_active
        f.enabled0 = self.m_enabled
        f.episode0 = self.episode
        f.regions = list(self.m_regions)
        if self.m_active and not streaming:
            for act in self._at_reference(cmd, params):
                if act == "disable":
                    if self.m_enabled and self.episode:
                        f.closing = True
                    self.m_enabled = False
                    self.episode = False
                else:
                    self.m_enabled = True
        f.enabled1 = self.m_enabled
        f.episode1 = self.episode
        self.comm.sent = []
        self.comm.streaming = bool(streaming)
        f.k0 = self.impl_key()
        f.result = self.call(self.plugin.handleAtCommandQueuing, self.comm, "queuing", cmd, params, tags=set())
        f.k1 = self.impl_key()
        self.comm.streaming = False
        f.sent = list(self.comm.sent)
        # MachineCom.sendCommand runs every command through the queuing hooks again
        for c in f.sent:
            if not isinstance(c, str):
                self.viol("sendCommand called with a non-string: %r" % (c,))
            line = H.process_gcode_line(c)
            if not line:
                continue
            gcode, subcode = H.gcode_and_subcode_for_cmd(line)
            self.comm.sent = []
            r = self.call(self.plugin.handleGcodeQueuing, self.comm, "queuing", line, None, gcode, subcode,
                          tags=set())
            out = H.decode(line, r)
            f.refed.append((line, r))
            for c2 in out:
                a0 = A.copy()
                A.execute(c2)
                f.atrace.append((c2, a0, A.copy()))
                f.fwd.append(c2)
        return f

    # ---- OctoPrint events
    def _event(self, name, st, check=True, payload=None):
        k0 = self.impl_key()
        before = self.regions_impl()
        evname = getattr(H.Events, name, name)
        self.call(self.plugin.on_event, evname, dict(payload) if payload else {})
        if name == "PRINT_STARTED":
            self.m_active = True
            self.m_homed = False
            self.m_enabled = True
            self.episode = False
        elif name in END_EVENTS:
            self.m_active = False
            self.episode = False
            if self.m_clear:
                self.m_regions = []
                self.m_homed = False
                self.m_enabled = True
        elif name == "FILE_SELECTED":
            self.m_regions = []
            self.m_homed = False
            self.m_enabled = True
            self.episode = False
        st.note = ("event", name, k0 == self.impl_key())

    def _set_values(self, key, value):
        if key.startswith("clear"):
            self.sv.clear = value
            self.m_clear = value
        elif key.startswith("may"):
            self.sv.shrink = value
            self.m_shrink = value
        elif key == "g90e":
            # OctoPrint's global feature flag, changed in the settings dialog while the plugin is loaded
            self.sv.g90e = value
            self.A.g90e = value
            self.B.g90e = value
        elif key == "save":
            pass                 # the dialog is saved with nothing changed (or another plugin's settings were)
        else:
            raise KeyError(key)

    def _set(self, key, value, st):
        self._set_values(key, value)
        H.push_settings(self.plugin, self.sv)
        if any(a.get("command") == "Broken" for a in self.sv.at):
            try:
                self.plugin.on_event(H.Events.SETTINGS_UPDATED, {})
            except Exception:   # noqa  (a broken pattern is stored: the handler raises, OctoPrint logs it)
                st.tags.add("settings-handler-raised")
        else:
            self.call(self.plugin.on_event, H.Events.SETTINGS_UPDATED, {})

    # ---- API
    def _api(self, op, rid, geo, anon, st, check=True):
        H.set_user(anon)
        data = {}
        if geo is not None:
            data.update(self.cfg.get("geo", GEO)[geo])
        if rid is not None:
            data["id"] = rid
        command = {"add": "addExcludeRegion", "upd": "updateExcludeRegion", "del": "deleteExcludeRegion"}[op]
        before_impl = self.regions_impl()
        k0 = self.impl_key()
        # every request body is decoded separately (fresh str/float objects), as a real HTTP request is
        resp = self.call(self.plugin.on_api_command, command, json.loads(json.dumps(data)))
        H.set_user(False)
        # reference registry
        exp = None
        ids = [r["id"] for r in self.m_regions]
        restricted = self.m_active and not self.m_shrink
        changed = False
        old = None
        if anon:
            exp = 403
        elif op == "del":
            if restricted:
                exp = 409
            elif rid in ids:
                self.m_regions = [r for r in self.m_regions if r["id"] != rid]
                changed = True
        elif data.get("type") not in ("RectangularRegion", "CircularRegion"):
            exp = 400
        elif op == "add":
            if rid is not None and rid in ids:
                exp = 409
            else:
                nid = rid if rid is not None else "u%d" % self.uuid.n   # counter already advanced by impl
                self.m_regions = self.m_regions + [dict(data, id=nid)]
                changed = True
        elif op == "upd":
            if rid not in ids:
                exp = 409
            else:
                old = [r for r in self.m_regions if r["id"] == rid][0]
                if restricted and not G.contains_region(data, old):
                    exp = 409
                else:
                    self.m_regions = [dict(data, id=rid) if r["id"] == rid else r for r in self.m_regions]
                    changed = True
        got = None
        if resp is not None:
            if isinstance(resp, tuple) and len(resp) >= 2 and isinstance(resp[1], int):
                got = resp[1]
            elif hasattr(resp, "status_code"):
                got = None if int(resp.status_code) in (200, 204) else int(resp.status_code)
            else:
                got = "?%r" % (resp,)
        st.response = got
        st.note = ("api", op, exp, got, changed, k0 == self.impl_key(), restricted, old, data)

    def _get(self, st):
        with H.APP.app_context():
            resp = self.call(self.plugin.on_api_get, None)
            got = json.loads(resp.get_data())["excluded_regions"]
        st.response = got
        st.note = ("get",)

    def _script(self, stype, sname, st):
        f = Feed("script", "%s/%s" % (stype, sname))
        st.feeds.append(f)
        A, B = self.A, self.B
        f.B0 = f.B1 = B.copy()
        f.A0 = A.copy()
        f.active = self.m_active
        f.enabled0 = f.enabled1 = self.m_enabled
        f.episode0 = self.episode
        f.regions = list(self.m_regions)
        k0 = f.k0 = self.impl_key()
        self.comm.sent = []
        f.result = self.call(self.plugin.handleScriptHook, self.comm, stype, sname)
        f.k1 = self.impl_key()
        f.sent = list(self.comm.sent)
        expect = self.m_active and self.episode and stype == "gcode" and sname == "afterPrintDone"
        if expect:
            f.closing = True
            self.episode = False
        f.episode1 = self.episode
        prefix = None
        f.contrib = None                  # decoded contribution: list of lines, or None when nothing is contributed
        if f.result is not None:
            if isinstance(f.result, (tuple, list)) and len(f.result) in (2, 3):
                parts = []
                for part in f.result[:2]:
                    if part is None:
                        continue
                    parts.extend(part if isinstance(part, (list, tuple)) else str(part).splitlines())
                prefix = f.result[0]
                f.contrib = [c for c in parts if isinstance(c, str) and c.strip()]
                if not f.contrib:
                    f.contrib = None
            else:
                f.contrib = ["<undecodable %r>" % (f.result,)]
        if prefix:
            lines = prefix if isinstance(prefix, (list, tuple)) else str(prefix).splitlines()
            for c in lines:
                if isinstance(c, str) and H.process_gcode_line(c):
                    c = H.process_gcode_line(c)
                    a0 = A.copy()
                    A.execute(c)
                    f.atrace.append((c, a0, A.copy()))
                    f.fwd.append(c)
        st.note = ("script", expect, k0 == self.impl_key())

    # ---- directed probe: turn a deviation of the tracked position into a behavioural witness
    def _track_probe(self, st):
        """If the filter's idea of the tool position has drifted away from the file's true position, there is a
        region set (a small disc around the believed position, clear of every true destination of the rest of
        the program) for which the next Z-only move is wrongly suppressed.  The probe builds exactly that
        program on a copy of the world and reports only the *behavioural* outcome; the tracked position is read
        defensively and is merely the hint where to put the region.  The world itself is left unchanged."""
        if not (self.m_active and self.m_homed and self.m_enabled) or self.episode:
            return
        try:
            pos = self.plugin.state.position
            tx, ty = float(pos.X_AXIS.current), float(pos.Y_AXIS.current)
        except Exception:   # noqa
            return
        bx, by = float(self.B.p["X"]), float(self.B.p["Y"])
        if math.hypot(tx - bx, ty - by) <= 1.0:
            return
        st.tags.add("track-probe-fired")
        zt = fmt(self.B.logical("Z") + 1) if self.B.abs else "1"
        cmd = "G1 Z" + zt
        g, sc = H.gcode_and_subcode_for_cmd(cmd)
        kinds = self.cfg.get("probe_kinds", ("believed", "true"))
        for kind in kinds:
            c = World.restore(self.snapshot(), self.cfg, keep_caches=True)
            H.set_user(False)
            cx, cy = (tx, ty) if kind == "believed" else (bx, by)
            data = dict(type="CircularRegion", cx=cx, cy=cy, r=0.45, id="probe")
            if c.call(c.plugin.on_api_command, "addExcludeRegion", dict(data)) is not None:
                continue
            r = c.call(c.plugin.handleGcodeQueuing, c.comm, "queuing", cmd, None, g, sc, tags=set())
            fwd = H.decode(cmd, r)
            if kind == "believed" and fwd != [cmd]:
                self.viol("%s the tool is at (%s, %s); with an additional region (disc r=0.45 at (%s, %s)) that no "
                          "destination of the program touches, the Z-only move %r is not forwarded verbatim: %r "
                          "(the filter tests regions %s mm away from the true position)"
                          % (self.prop, bx, by, tx, ty, cmd, r, round(math.hypot(tx - bx, ty - by), 3)))
            if kind == "true" and cmd in fwd:
                self.viol("%s the tool is at (%s, %s) inside a region drawn around it (disc r=0.45) but the Z-only move "
                          "%r is forwarded: %r (the filter believes the tool to be at (%s, %s))"
                          % (self.prop, bx, by, cmd, r, tx, ty))

    # ---- C10: differential check against a freshly initialised plugin (does not change the world)
    C10_PROBES = ["G1 X50 Y40", "G1 X70 Y65 E1", "G1 E-1 F1800", "G1 E0 F1800", "M117 probe", "M204 S7", "G1 Z2",
                  "G91", "G20", "G10", "@ExcludeRegion enable", "@ExcludeRegion disable"]
    _c10_cache = {}

    def _c10_check(self, st):
        snap = self.snapshot()
        used = World.restore(snap, self.cfg, keep_caches=True)
        payload = self.cfg.get("c10_payload")
        used._event("PRINT_STARTED", Step(None), payload=payload)
        used.pkg = H.capture_pkg_state()
        # a freshly initialised plugin given the same regions and settings
        sv = pickle.loads(pickle.dumps(self.sv))
        pm = H.PluginManager()
        H.install_uuid(H.Uuid(1000))
        H.reset_pkg_state()               # a freshly started OctoPrint: import-time state of the package
        fresh = H.new_plugin(sv, pm)
        H.set_user(False)
        for r in self.m_regions:
            fresh.on_api_command("addExcludeRegion", dict(r))
        fresh.on_event(H.Events.PRINT_STARTED, dict(payload) if payload else {})
        fpkg = dumps(H.capture_pkg_state())
        self.install()
        ku, kf = plugin_key_text(used.plugin) + used.pkg_key_text(), plugin_key_text(fresh) + pkg_text(loads(fpkg))
        # The property is behavioural ("its output equals that of a freshly initialised plugin").  Equal
        # canonical states have equal behaviour, so the probe programs are run once per distinct pair of
        # states; a state difference alone is not reported, it only makes the probing one level deeper.
        st.tags.add("reset-compared" if ku == kf else "reset-state-differs")
        cache_key = hashlib.blake2b((ku + "##" + kf).encode(), digest_size=16).digest()
        if cache_key in World._c10_cache:
            return
        # differential probes: every program of <= depth commands after homing gives identical hook output
        depth = self.cfg.get("probe_depth", 2) + (0 if ku == kf else 1)
        import itertools
        fsnap = dumps(fresh)
        usnap = used.snapshot()

        def run(plugin, prog):
            comm = H.Comm()
            outs = []
            for c in ("G28",) + prog:
                if c.startswith("@"):
                    parts = c[1:].split(None, 1)
                    comm.sent = []
                    plugin.handleAtCommandQueuing(comm, "queuing", parts[0], parts[1] if len(parts) > 1 else "", tags=set())
                    outs.append(("at", tuple(comm.sent)))
                else:
                    g, sc = H.gcode_and_subcode_for_cmd(c)
                    try:
                        outs.append(("g", repr(plugin.handleGcodeQueuing(comm, "queuing", c, None, g, sc, tags=set()))))
                    except Exception as e:   # noqa
                        outs.append(("exc", type(e).__name__))
            outs.append(("script", repr(plugin.handleScriptHook(comm, "gcode", "afterPrintDone"))))
            return outs
        n = 0
        for d in range(1, depth + 1):
            for prog in itertools.product(self.C10_PROBES, repeat=d):
                up = World.restore(usnap, self.cfg, keep_caches=True).plugin
                fp = loads(fsnap)
                a = run(up, prog)
                H.install_pkg_state(loads(fpkg))
                b = run(fp, prog)
                n += 1
                if a != b:
                    i = [x != y for x, y in zip(a, b)].index(True)
                    self.viol("C10 after print-started the program %r behaves differently from a freshly initialised "
                              "plugin with the same regions and settings: step %d gives %r, fresh plugin %r"
                              % (("G28",) + prog, i, a[i], b[i]))
        World._c10_cache[cache_key] = n
        st.tags.add("probed")
        self.mon["c10_probe_programs"] = 0      # (count is reported through tags only; state stays unchanged)
        del self.mon["c10_probe_programs"]

    # ------------------------------------------------------------------------------ always-on checks
    def _registry_checks(self, st):
        """The reference registry/lifecycle must agree with the implementation after every step.  These
        are model-conformance checks; the C11/C12/C13 monitors turn disagreements into violations of
        their property, every other property treats them as violations too (the model would be lost)."""
        now = self.regions_impl()
        if norm_regions(now) != norm_regions(self.m_regions):
            self.viol("region list %r differs from the reference registry %r after %r" % (now, self.m_regions, st.ev))
        if bool(self.plugin.isActivePrintJob) != self.m_active:
            self.viol("active-print flag is %r, reference lifecycle says %r after %r"
                      % (self.plugin.isActivePrintJob, self.m_active, st.ev))

    # ------------------------------------------------------------------------------ monitors
    def _inside(self, regions, xy):
        return xy[0] is not None and G.any_contains(regions, xy[0], xy[1])

    def _mon_c01(self, st):
        for f in st.feeds:
            if not f.active:
                continue
            for c, a0, a1 in f.atrace:
                moved_xy = a1.xy() != a0.xy()
                moved = a1.xyz() != a0.xyz()
                gc_, _, words_, _ = read(c)
                if gc_ in ("G2", "G3") and f.enabled1 and f.kind != "script" and a0.p["X"] is not None:
                    # a forwarded arc is motion along its whole path, not only to its end point
                    pts_ = arc_points(a0, words_, gc_ == "G2")
                    if pts_ is not None and any(float_inside(self.m_regions, x_, y_) for x_, y_ in pts_):
                        self.viol("C01 forwarded arc %r (for %r) passes through a region (the printer is at (%s, %s))"
                                  % (c, f.cmd, float(a0.p["X"]), float(a0.p["Y"])), self._detail(f))
                if f.enabled1 and f.kind != "script" and moved_xy and self._inside(self.m_regions, a1.xy()):
                    self.viol("C01 tool moved into a region: forwarded %r (for %r) takes the printer to (%s, %s)"
                              % (c, f.cmd, float(a1.p["X"]), float(a1.p["Y"])), self._detail(f))
                if f.kind == "gcode" and f.episode1:
                    if moved:
                        self.viol("C01 motion inside an open episode: forwarded %r (for %r) moves X/Y/Z"
                                  % (c, f.cmd), self._detail(f))
                    if a1.fil > a0.fil + TOL or (a0.fw and not a1.fw):
                        self.viol("C01 filament advanced inside an open episode: forwarded %r (for %r)"
                                  % (c, f.cmd), self._detail(f))
            if f.kind == "gcode" and f.episode1:
                st.tags.add("in-episode")
            if f.opening:
                st.tags.add("episode-opened")
            if f.closing:
                st.tags.add("episode-closed")

    def _sync_check(self, f, why):
        A, B = self.A, self.B
        for ax in "XYZ":
            if A.p[ax] is None or B.p[ax] is None:
                continue
            if abs(A.p[ax] - B.p[ax]) > TOL:
                self.viol("C03 %s not re-synchronised after %s: printer %s=%s, file %s=%s"
                          % (ax, why, ax, float(A.p[ax]), ax, float(B.p[ax])), self._detail(f))
        if A.abs != B.abs:
            self.viol("C03 positioning mode differs after %s: printer %s, file %s"
                      % (why, "absolute" if A.abs else "relative", "absolute" if B.abs else "relative"),
                      self._detail(f))
        if A.unit != B.unit:
            self.viol("C03 units differ after %s" % why, self._detail(f))

    def _zorder_check(self, f):
        """Re-positioning travel happens at the higher of the printer's previous Z and the target Z."""
        if not f.atrace:
            return
        z_prev = f.A0.p["Z"]
        z_tgt = f.B1.p["Z"]
        want = max(z_prev, z_tgt)
        for c, a0, a1 in f.atrace:
            if a1.xy() != a0.xy():
                if abs(a0.p["Z"] - want) > TOL or abs(a1.p["Z"] - want) > TOL:
                    self.viol("C03 Z order: %r travels in XY at Z=%s..%s, expected Z=%s (previous %s, target %s); "
                              "forwarded %r" % (c, float(a0.p["Z"]), float(a1.p["Z"]), float(want),
                                                float(z_prev), float(z_tgt), f.fwd), self._detail(f))

    def _mon_c03(self, st):
        for f in st.feeds:
            if not f.active or not self.m_homed:
                continue
            if f.kind == "gcode":
                if f.closing:
                    self._zorder_check(f)
                    st.tags.add("resync-by-move")
                if f.is_move and not f.dest_in:
                    self._sync_check(f, "%r" % f.cmd)
            elif f.kind == "at" and f.closing:
                self._zorder_check(f)
                self._sync_check(f, "%r (closing the episode)" % f.cmd)
                st.tags.add("resync-by-disable")

    def _mon_c04(self, st):
        for f in st.feeds:
            if not f.active or f.kind == "script":
                continue
            A, B = self.A, self.B
            if f.kind == "gcode":
                dB = f.B1.fil - f.B0.fil
                for c, a0, a1 in f.atrace:
                    if c != f.cmd and a1.hwm > a0.hwm + DTOL:
                        self.viol("C04 generated command %r (for %r) deposits %s mm of filament the file never "
                                  "specified; forwarded %r" % (c, f.cmd, float(a1.hwm - a0.hwm), f.fwd), self._detail(f))
                    if f.episode1 and a1.fil > a0.fil + TOL:
                        self.viol("C04 suppressed span pushes filament: %r (for %r)" % (c, f.cmd), self._detail(f))
                    if (c == f.cmd and f.is_move and not f.dest_in and not f.closing and dB > 0):
                        dA = a1.fil - a0.fil
                        if abs(dA - dB) > TOL:
                            self.viol("C04 forwarded extruding move %r pushes %s mm, the file specifies %s mm "
                                      "(forwarded %r)" % (c, float(dA), float(dB), f.fwd), self._detail(f))
                        st.tags.add("extruding-move-forwarded")
            # filament conservation: what the printer deposits = what the file deposits minus the deposits of
            # commands that were not forwarded (suppressed or rewritten)
            if f.kind == "gcode":
                dA = sum(a1.hwm - a0.hwm for c, a0, a1 in f.atrace)
                dBdep = (f.B1.hwm - f.B0.hwm) if f.cmd in f.fwd else 0
                if max(abs(f.B0.E), abs(f.B1.E)) > 10 ** 9:
                    self.mon["c04_D"] = None       # beyond float resolution: the accounting is meaningless from here on
                elif self.mon.get("c04_D", Fr(0)) is not None:
                    self.mon["c04_D"] = self.mon.get("c04_D", Fr(0)) + dA - dBdep
            if not f.episode1 and abs(A.depth() - B.depth()) <= DTOL and not (A.fw or B.fw) \
                    and self.mon.get("c04_D", Fr(0)) is not None:
                if abs(self.mon.get("c04_D", Fr(0))) > 10 * DTOL:
                    self.viol("C04 filament accounting outside a region: the printer has deposited %s mm more than the "
                              "file specifies for the commands that were forwarded (after %r -> %r)"
                              % (float(self.mon["c04_D"]), f.cmd, f.fwd), self._detail(f))
            if not f.episode1 and abs(A.E - B.E) > TOL + abs(B.E) / 10 ** 12:
                self.viol("C04 extruder coordinate outside a region: printer E=%s, file E=%s after %r -> %r"
                          % (float(A.E), float(B.E), f.cmd, f.fwd), self._detail(f))
            if f.closing:
                st.tags.add("E-resync-at-exit")

    def _mon_c05(self, st):
        for f in st.feeds:
            if not f.active or f.kind == "script":
                continue
            A, B = self.A, self.B
            for c, a0, a1 in f.atrace:
                if c != f.cmd and a1.hwm > a0.hwm + DTOL:
                    self.viol("C05 generated command %r (for %r) pushes %s mm of filament beyond what had been "
                              "retracted (a recovery larger than the retraction it recovers); forwarded %r"
                              % (c, f.cmd, float(a1.hwm - a0.hwm), f.fwd), self._detail(f))
                if a1.fil > a0.fil + TOL and a1.xy() != a0.xy():
                    if abs(a0.depth() - f.B0.depth()) > DTOL or a0.fw != f.B0.fw:
                        self.viol("C05 printing move %r extrudes with physical retraction depth %s (fw %s) while "
                                  "the file assumes %s (fw %s); forwarded %r"
                                  % (c, float(a0.depth()), a0.fw, float(f.B0.depth()), f.B0.fw, f.fwd),
                                  self._detail(f))
                    st.tags.add("printing-move")
                if c != f.cmd and read(c)[0] in ("G10", "G11"):
                    # the parameters select the kind of firmware retraction (S1 = long): a generated command carries
                    # those of the file's latest G10 or of the retraction the printer actually executed
                    allowed = [read(x)[2] for x in (self.file_g10, a0.last_fw_cmd) if x]
                    if read(c)[2] not in allowed:
                        self.viol("C05 generated %r carries neither the parameters of the file's %r nor those of the "
                                  "retraction the printer executed (%r)" % (c, self.file_g10, a0.last_fw_cmd),
                                  self._detail(f))
                    st.tags.add("generated-fw-cmd")
            if A.depth() > self.max_depth_b + DTOL:
                self.viol("C05 retracted deeper (%s) than the file ever requested (%s) after %r -> %r"
                          % (float(A.depth()), float(self.max_depth_b), f.cmd, f.fwd), self._detail(f))
            if A.depth() < B.depth() - DTOL:
                self.viol("C05 retracted shallower (%s) than the file assumes (%s) after %r -> %r"
                          % (float(A.depth()), float(B.depth()), f.cmd, f.fwd), self._detail(f))
            if A.fw_errors:
                self.viol("C05 firmware retract/recover parity broken after %r -> %r" % (f.cmd, f.fwd),
                          self._detail(f))
            if B.fw and not A.fw:
                self.viol("C05 file is firmware-retracted, printer is not, after %r -> %r" % (f.cmd, f.fwd),
                          self._detail(f))
            if A.depth() > B.depth() + DTOL or (A.fw and not B.fw):
                st.tags.add("recovery-owed")


    # ---- C02: transparency
    def _mon_c02(self, st):
        for f in st.feeds:
            if f.kind == "gcode":
                ok = f.fwd == [f.cmd]           # by meaning: None, [cmd], cmd and (cmd,) all forward the command unchanged
                if not ok:
                    self.viol("C02 command %r was not forwarded verbatim although the program never touches an "
                              "enabled region: hook returned %r" % (f.cmd, f.result), self._detail(f))
                if f.sent:
                    self.viol("C02 hook sent extra commands %r for %r" % (f.sent, f.cmd), self._detail(f))
                st.tags.add("verbatim:" + (f.code or "?"))
            elif f.kind == "at":
                if f.sent:
                    self.viol("C02 @-command produced commands %r although no episode can be open" % (f.sent,),
                              self._detail(f))
        if self.A.key() != self.B.key():
            self.viol("C02 printer states differ although nothing should have been altered")

    # ---- C11: lifecycle gating
    def _mon_c11(self, st):
        for f in st.feeds:
            if f.active:
                st.tags.add("hook-while-active")
                # while a print is active the filter works on the *current* region list
                if f.kind == "gcode" and f.is_move and self.m_homed:
                    if f.dest_in and f.cmd in f.fwd:
                        self.viol("C11 %r ends inside a region of the current list %r but was forwarded (active print)"
                                  % (f.cmd, [r["id"] for r in f.regions]))
                    if not f.dest_in and not f.episode0 and f.cmd not in f.fwd:
                        self.viol("C11 %r was suppressed although the current region list %r does not contain its "
                                  "destination (active print)" % (f.cmd, [r["id"] for r in f.regions]))
                continue
            st.tags.add("hook-while-inactive")
            if f.kind == "gcode":
                if f.fwd != [f.cmd]:
                    self.viol("C11 gcode altered while no print is active: %r -> %r" % (f.cmd, f.result))
                if f.sent:
                    self.viol("C11 gcode hook sent commands while no print is active: %r" % (f.sent,))
            elif f.kind == "at":
                if f.sent:
                    self.viol("C11 @-command processed while no print is active: %r sent %r" % (f.cmd, f.sent))
            elif f.kind == "script":
                if f.contrib is not None:
                    self.viol("C11 script hook contributed %r while no print is active" % (f.result,))
            if f.k0 is not None and f.k0 != f.k1:
                self.viol("C11 %s %r changed the tracking state while no print is active" % (f.kind, f.cmd))
        if st.note and st.note[0] == "event":
            name = st.note[1]
            st.tags.add("event:" + name)
            # pause / resume / unrelated events: the print stays active (or inactive) and the region list is kept --
            # both are compared with the reference lifecycle after every step (_registry_checks); internal
            # bookkeeping of such events is the implementation's business

    # ---- C13: registry integrity and notification
    def _mon_c13(self, st):
        now = self.regions_impl()
        ids = [r["id"] for r in now]
        if len(ids) != len(set(ids)):
            self.viol("C13 duplicate region ids %r after %r" % (ids, st.ev))
        changed = norm_regions(now) != norm_regions(st.before) or [r["id"] for r in st.before] != ids
        if st.note and st.note[0] == "api":
            _, op, exp, got, mchanged, same_key, restricted, old, data = st.note
            if got != exp:
                self.viol("C13 %s request answered with status %r, expected %r (%r)" % (op, got, exp, st.ev))
            if exp is not None:
                st.tags.add("rejected:%s" % exp)
                if changed:
                    self.viol("C13 rejected request (%s) modified the region list: %r" % (exp, st.ev))
                if st.msgs:
                    self.viol("C13 rejected request (%s) sent a notification: %r" % (exp, st.ev))
            else:
                st.tags.add("accepted:%s" % op)
        if st.note and st.note[0] == "get":
            if norm_regions(st.response) != norm_regions(now) or [r.get("id") for r in st.response] != ids:
                self.viol("C13 GET response %r differs from the current list %r" % (st.response, now))
            st.tags.add("get")
        if changed:
            st.tags.add("list-changed")
            if len(st.msgs) != 1:
                self.viol("C13 the region list changed but %d notifications were sent (%r)" % (len(st.msgs), st.ev))
        for m in st.msgs:
            pl = m.get("excluded_regions")
            if m.get("event") != "ExcludedRegionsChanged" or pl is None or \
                    norm_regions(pl) != norm_regions(now) or [r.get("id") for r in pl] != ids:
                self.viol("C13 notification payload %r differs from the current list %r after %r" % (m, now, st.ev))

    # ---- C12: excluded area never shrinks while printing unless allowed
    def _mon_c12(self, st):
        if not (st.note and st.note[0] == "api"):
            return
        _, op, exp, got, mchanged, same_key, restricted, old, data = st.note
        now = self.regions_impl()
        if restricted:
            st.tags.add("restricted:%s:%s" % (op, got))
            if op == "del" and (got != 409 and st.ev[4] is False):
                self.viol("C12 delete request accepted while printing with shrinking disallowed: %r -> %r"
                          % (st.ev, got))
            # every sampled point excluded before must be excluded after
            for g in st.before:
                for (x, y) in G.extreme_points(g) + G_lattice(g):
                    if G.contains_point(g, x, y) and not G.any_contains(now, x, y):
                        self.viol("C12 point (%s, %s) was excluded by %r and is no longer excluded after %r "
                                  "(status %r) while printing with shrinking disallowed"
                                  % (float(x), float(y), g, st.ev, got))
        if got != exp:
            self.viol("C12 %s request answered with status %r, expected %r (%r)" % (op, got, exp, st.ev))
        if exp is not None and (norm_regions(now) != norm_regions(st.before) or
                                [r["id"] for r in now] != [r["id"] for r in st.before]):
            self.viol("C12 refused request changed the region list: %r" % (st.ev,))

    # ---- C15: a print that ends while excluding is cleaned up exactly once
    def _mon_c15(self, st):
        for f in st.feeds:
            if f.kind != "script":
                continue
            _, expect, same_key = st.note
            if expect:
                st.tags.add("cleanup-contributed")
                r = f.result
                if f.contrib is None or not f.fwd or f.contrib != f.fwd:
                    self.viol("C15 print ended while excluding but the afterPrintDone hook returned %r "
                              "(expected a non-empty prefix and no postfix)" % (r,))
                self._sync_check(f, "the afterPrintDone clean-up")
                self._zorder_check(f)
                if abs(self.A.E - self.B.E) > TOL:
                    self.viol("C15 clean-up leaves the extruder coordinate at %s, file %s" % (float(self.A.E), float(self.B.E)))
            else:
                st.tags.add("nothing-contributed")
                if f.contrib is not None:
                    self.viol("C15 script hook %s contributed %r although %s" % (
                        f.cmd, f.result, "no print is active" if not f.active else
                        ("no episode is open" if not f.episode0 else "it is not gcode/afterPrintDone")))

    # ---- C14: @-commands switch exclusion off and on
    def _mon_c14(self, st):
        for f in st.feeds:
            if not f.active:
                continue
            if f.kind == "gcode":
                if not f.enabled0:
                    st.tags.add("move-while-disabled" if f.is_move else "cmd-while-disabled")
                    if f.is_move and f.cmd not in f.fwd:
                        self.viol("C14 exclusion is disabled but the move %r was suppressed: %r" % (f.cmd, f.result),
                                  self._detail(f))
                if f.episode1 and f.code == "M117":
                    self.mon["c14_last_m117"] = f.cmd
                if f.closing or f.opening:
                    self.mon.pop("c14_last_m117", None) if f.closing else None
            elif f.kind == "at":
                streaming = len(st.ev) > 3 and st.ev[3]
                acts = [] if streaming else self._at_reference(st.ev[1], st.ev[2])
                if not acts:
                    st.tags.add("at-ignored-streaming" if streaming else "at-unmatched")
                    if f.sent:
                        self.viol("C14 %r matches no configured action%s but commands were sent: %r"
                                  % (f.cmd, " (streaming to SD)" if streaming else "", f.sent))
                    # "changes nothing" is judged by behaviour: the reference flag stays as it was, and the C01/C03
                    # obligations that run alongside expose any effect on later decisions (internal bookkeeping such
                    # as a count of @-commands seen is the implementation's business)
                elif f.closing:
                    st.tags.add("disable-mid-episode")
                    if not f.sent:
                        self.viol("C14 disable inside an episode sent nothing (episode not closed)")
                    want = self.mon.pop("c14_last_m117", None)
                    if want is not None and f.sent.count(want) != 1:
                        self.viol("C14 disable inside an episode: deferred %r expected exactly once in %r" % (want, f.sent))
                else:
                    st.tags.add("at-" + "+".join(acts))
                    if f.sent:
                        self.viol("C14 %r outside an episode sent commands: %r" % (f.cmd, f.sent))

    # ---- C06: deferred codes and scripts exactly once per episode
    def _c06_modes(self):
        return {e["gcode"]: e["mode"] for e in self.sv.ext}

    def _c06_scripts(self):
        def split(txt):
            if txt is None:
                return []
            out = []
            for line in txt.replace("\r\n", "\n").replace("\r", "\n").split("\n"):
                line = line.split(";", 1)[0].strip(" ")
                if line:
                    out.append(line)
            return out
        return split(self.sv.enter), split(self.sv.exit)

    def _c06_account_close(self, f, emitted, how):
        """Every command emitted when an episode ends must be explained: flush, exit script, re-sync."""
        pending = self.mon.get("c06_pending", [])
        enter, exit_ = self._c06_scripts()
        # the extruder re-sync (G92 with only an E word) is not a re-positioning move; where it stands is free
        def is_g92e(c):
            gc, _, words, _ = read(c)
            return gc == "G92" and [l for l, _ in words] == ["E"]
        emitted = [c for c in emitted if not is_g92e(c) or c in exit_]
        i = 0
        for code, mode, val in pending:
            if i >= len(emitted):
                self.viol("C06 episode ended by %s: deferred %s command missing from %r (expected %d deferred commands)"
                          % (how, code, emitted, len(pending)), self._detail(f))
            got = emitted[i]
            if mode in ("first", "last"):
                if got != val:
                    self.viol("C06 episode ended by %s: expected the %s instance %r at position %d, got %r (emitted %r)"
                              % (how, mode, val, i, got, emitted), self._detail(f))
            else:
                gc, _, words, _ = read(got)
                gotd = {}
                for l, v in words:
                    gotd[l] = v
                if gc != code or gotd != dict(val) or len(words) != len(gotd):
                    self.viol("C06 episode ended by %s: merged %s should carry the latest values %r once, got %r"
                              % (how, code, {k: (None if v is None else float(v)) for k, v in val}, got), self._detail(f))
            i += 1
        if emitted[i:i + len(exit_)] != exit_:
            self.viol("C06 episode ended by %s: expected the exit script %r after %d deferred commands, emitted %r"
                      % (how, exit_, len(pending), emitted), self._detail(f))
        i += len(exit_)
        rest = emitted[i:]
        for c in rest:
            gc, _, words, junk = read(c)
            ok = (gc == "G92" and [l for l, _ in words] == ["E"]) or \
                 (gc in ("G0", "G1") and all(l in "FXYZ" for l, _ in words)) or \
                 (gc in ("G0", "G1") and all(l in "FE" for l, _ in words)) or \
                 (gc in ("G90", "G91", "M82", "M83") and not words)
            if not ok or c in exit_ or c in enter:
                self.viol("C06 episode ended by %s: unexplained command %r after the exit script (emitted %r; "
                          "%d deferred, exit script %r)" % (how, c, emitted, len(pending), exit_), self._detail(f))
        xy_moves = sum(1 for c, a0, a1 in f.atrace if a1.xy() != a0.xy())
        if xy_moves > 1:
            self.viol("C06 episode ended by %s: %d forwarded commands move X/Y (stale re-sync commands?): %r"
                      % (how, xy_moves, emitted), self._detail(f))
        self.mon["c06_pending"] = []

    def _mon_c06(self, st):
        modes = self._c06_modes()
        enter, exit_ = self._c06_scripts()
        if st.ev[0] == "NEWPRINT" or (st.note and st.note[0] == "event" and
                                      st.note[1] in END_EVENTS + ("PRINT_STARTED", "FILE_SELECTED")):
            self.mon["c06_pending"] = []
        scope = self.cfg.get("c06_scope")          # "script": only the print-end flush is judged (C15); the
        for f in st.feeds:                         # deferral bookkeeping still follows every command
            if not f.active:
                continue
            if scope == "script" and f.kind != "script":
                try:
                    self._mon_c06_feed(st, f, modes, enter, exit_)
                except Violation:
                    if f.opening or f.closing:
                        self.mon["c06_pending"] = []
                continue
            self._mon_c06_feed(st, f, modes, enter, exit_)

    def _mon_c06_feed(self, st, f, modes, enter, exit_):
        if True:
            if f.kind == "gcode":
                if f.opening:
                    st.tags.add("enter-script" if enter else "episode-opened")
                    if f.fwd[:len(enter)] != enter:
                        self.viol("C06 episode opened by %r: expected the enter script %r first, forwarded %r"
                                  % (f.cmd, enter, f.fwd), self._detail(f))
                    rest = f.fwd[len(enter):]
                    retracts = f.B1.fil < f.B0.fil        # the entering move itself retracts
                    if rest and not retracts:
                        self.viol("C06 episode opened by %r (not a retracting move): unexplained commands %r after "
                                  "the enter script %r" % (f.cmd, rest, enter), self._detail(f))
                    codes = [read(c)[0] for c in rest]
                    if rest and codes not in (["G92", "G1"], ["G92", "G0"], ["G10"]):
                        self.viol("C06 episode opened by the retracting move %r: expected at most its own retraction "
                                  "(G92 E + G1 E, or G10) after the enter script, forwarded %r" % (f.cmd, f.fwd),
                                  self._detail(f))
                    for c in rest:
                        gc, _, words, _ = read(c)
                        ok = (gc == "G92" and [l for l, _ in words] == ["E"]) or gc == "G10" or \
                             (gc in ("G0", "G1") and all(l in "FE" for l, _ in words))
                        if not ok or c in enter or c in exit_:
                            self.viol("C06 episode opened by %r: unexplained command %r after the enter script "
                                      "(forwarded %r)" % (f.cmd, c, f.fwd), self._detail(f))
                    self.mon["c06_pending"] = []
                elif f.closing:
                    st.tags.add("flush-by-move")
                    self._c06_account_close(f, f.fwd, "the move %r" % f.cmd)
                elif f.episode1:
                    for c in f.fwd:
                        if c in enter or c in exit_:
                            self.viol("C06 script line %r emitted inside an episode (for %r)" % (c, f.cmd), self._detail(f))
                    mode = modes.get(f.code)
                    if mode is not None:
                        st.tags.add("deferred:" + mode)
                        if f.fwd:
                            self.viol("C06 %s-mode code %r was not withheld inside an episode: %r" % (mode, f.cmd, f.fwd),
                                      self._detail(f))
                        pend = list(self.mon.get("c06_pending", []))
                        idx = [i for i, p in enumerate(pend) if p[0] == f.code]
                        if mode == "first":
                            if not idx:
                                pend.append((f.code, mode, f.cmd))
                        elif mode == "last":
                            if idx:
                                pend.pop(idx[0])
                            pend.append((f.code, mode, f.cmd))
                        elif mode == "merge":
                            cur = {}
                            if idx:
                                cur = dict(pend.pop(idx[0])[2])
                            for l, v in f.words:
                                cur[l] = v
                            pend.append((f.code, mode, tuple(cur.items())))
                        self.mon["c06_pending"] = pend
                else:
                    for c in f.fwd:
                        if c != f.cmd and (c in enter or c in exit_):
                            self.viol("C06 script line %r emitted outside any episode (for %r)" % (c, f.cmd), self._detail(f))
            elif f.kind == "at":
                if f.closing:
                    st.tags.add("flush-by-disable")
                    self._c06_account_close(f, f.sent, "%r" % f.cmd)
                elif f.sent:
                    self.viol("C06 %r sent %r although no episode was open" % (f.cmd, f.sent))
            elif f.kind == "script":
                if f.closing:
                    st.tags.add("flush-by-print-end")
                    if f.contrib is None:
                        self.viol("C06 print ended inside an episode but the script hook returned %r" % (f.result,))
                    self._c06_account_close(f, list(f.contrib), "the end of the print")
                elif f.contrib is not None:
                    self.viol("C06 script hook contributed %r although no episode was open" % (f.result,))

    # ---- C07: synthesised commands are well-formed plain-decimal G-code
    C07_RE = re.compile(r"^[GM][0-9]+(\.[0-9]+)?(\s*[A-Z]\s*([-+]?([0-9]+(\.[0-9]*)?|\.[0-9]+))?)*\s*$")

    def _c07_check_cmd(self, c, f):
        if not self.C07_RE.match(c):
            self.viol("C07 generated command %r (for %r) is not plain-decimal G-code: expected one G/M code followed by "
                      "letter/number words in plain decimal notation" % (c, f.cmd), self._detail(f))
        letters = [l for l, _ in read(c)[2]]
        if len(letters) != len(set(letters)):
            self.viol("C07 generated command %r (for %r) repeats a parameter letter" % (c, f.cmd), self._detail(f))

    def _mon_c07(self, st):
        enter, exit_ = self._c06_scripts()
        for f in st.feeds:
            if not f.active:
                continue
            emitted = list(f.fwd) if f.kind != "at" else list(f.sent)
            for c in emitted:
                if c == f.cmd or c in enter or c in exit_ or c in self.mon.get("c07_verbatim", ()):
                    continue
                st.tags.add("synthesised:" + c.split(" ")[0])
                self._c07_check_cmd(c, f)
            if f.kind == "gcode" and f.episode1 and self._c06_modes().get(f.code) in ("first", "last"):
                self.mon["c07_verbatim"] = tuple(sorted(set(self.mon.get("c07_verbatim", ())) | {f.cmd}))

    # ------------------------------------------------------------------------------ reporting
    def _detail(self, f):
        return dict(cmd=f.cmd, result=repr(f.result), forwarded=f.fwd, sent=f.sent)

    def tags(self, st):
        t = set(st.tags)
        for f in st.feeds:
            if f.kind == "gcode":
                if f.result is None:
                    t.add("passed-through")
                elif not f.fwd:
                    t.add("suppressed")
                else:
                    t.add("rewritten")
        return t

    def outdigest(self, st):
        h = hashlib.blake2b(digest_size=8)
        for f in st.feeds:
            h.update(repr((f.cmd, f.fwd, f.sent)).encode())
        h.update(repr((st.response, st.msgs)).encode())
        return h.digest()

    def describe(self, ev, st):
        d = dict(event=list(ev))
        if st.feeds:
            d["hook_calls"] = [dict(cmd=f.cmd, result=repr(f.result), forwarded=f.fwd,
                                    **({"sendCommand": f.sent} if f.sent else {})) for f in st.feeds]
        if st.response is not None:
            d["response"] = st.response
        if st.msgs:
            d["notifications"] = len(st.msgs)
        return d


def dest_of(w, ev):
    """Nominal XY destination of a file event (None when the event does not move in X/Y)."""
    k = ev[0]
    f = w.f
    if k in ("TRAVEL", "PRINT", "WIPE", "TRAVELZ", "TRAVELE"):
        return w.pt(ev[1])
    if k == "XONLY":
        return (w.pt(ev[1])[0], f["y"])
    if k == "YONLY":
        return (f["x"], w.pt(ev[1])[1])
    if k == "NUDGE":
        d = Fr(ev[2]) * (Fr(254, 10) if f["inch"] else 1)
        return (f["x"] + d, f["y"]) if ev[1] == "X" else (f["x"], f["y"] + d)
    return None


def stays_clear(w, ev):
    """Scenario guard for C02's premise: no move destination lies inside (or within 1 mm of) a region."""
    d = dest_of(w, ev)
    if d is None or d[0] is None:
        return True
    return not float_inside(w.m_regions, float(d[0]), float(d[1]), margin=w.cfg.get("clear_margin", 0.25))


def no_relative_disable(w, ev):
    """Scenario guard: a disable @-command is not issued while an episode is open in relative positioning
    (known finding D17 is explored in its own dedicated scenario)."""
    if ev[0] == "AT" and w.episode and not w.f["abs"] and "disable" in w._at_reference(ev[1], ev[2]):
        return False
    return True


def G_lattice(g, step=Fr(1, 4), cap=400):
    """Lattice points of step 1/4 over the bounding box of region dict g (capped)."""
    if G.is_degenerate(g):
        return []
    if g["type"] == "RectangularRegion":
        x1, y1, x2, y2 = G.norm_rect(g)
    else:
        if G.is_empty(g):
            return []
        cx, cy, r = G.F(g["cx"]), G.F(g["cy"]), G.F(g["r"])
        x1, y1, x2, y2 = cx - r, cy - r, cx + r, cy + r
    nx = int((x2 - x1) / step) + 1
    ny = int((y2 - y1) / step) + 1
    while nx * ny > cap:
        step *= 2
        nx = int((x2 - x1) / step) + 1
        ny = int((y2 - y1) / step) + 1
    return [(x1 + i * step, y1 + j * step) for i in range(nx) for j in range(ny)]


_SETTINGS = None


def _shared_settings():
    """One PluginSettings wrapper per process; it is a stateless view of OctoPrint's global settings and
    every world pushes its own values before the plugin reads them."""
    global _SETTINGS
    if _SETTINGS is None:
        p = H.PKG.ExcludeRegionPlugin()
        pre = p.get_settings_preprocessors()
        _SETTINGS = H.plugin_settings("excluderegion", defaults=p.get_settings_defaults(),
                                      get_preprocessors=pre[1], set_preprocessors=pre[0])
    return _SETTINGS
