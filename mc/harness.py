"""Bootstrap: import the plugin package from the repository's *working tree* and build real plugin
objects outside OctoPrint.  Nothing here touches /repo.

Sources of non-determinism owned here (DESIGN 3.2):
  * uuid.uuid4 in the two region modules  -> per-world counter (install_uuid)
  * OctoPrint's process-global settings   -> every world pushes all values it relies on before the
                                             plugin reads them (push_settings)
  * current_user / flask app context      -> stubs
  * loggers at ERROR (isEnabledFor(DEBUG) is False, as in production)
"""
import atexit, json, logging, os, shutil, sys, tempfile, warnings

warnings.simplefilter("ignore")
REPO = os.environ.get("VERIF_REPO", "/repo")
GUARD = "EXCLUDEREGION_VERIF"
os.environ.setdefault(GUARD, "1")
sys.dont_write_bytecode = True
if sys.path[0] != REPO:
    sys.path.insert(0, REPO)

_BASEDIR = tempfile.mkdtemp(prefix="erverif-")
atexit.register(lambda: shutil.rmtree(_BASEDIR, ignore_errors=True))

from octoprint.settings import settings as _octo_settings  # noqa: E402
_octo_settings(init=True, basedir=_BASEDIR)

import flask  # noqa: E402
import octoprint_excluderegion as PKG  # noqa: E402
from octoprint.plugin import plugin_settings  # noqa: E402
from octoprint.events import Events  # noqa: E402
from octoprint.util.comm import gcode_and_subcode_for_cmd, process_gcode_line  # noqa: E402

assert os.path.realpath(PKG.__file__).startswith(os.path.realpath(REPO) + os.sep), \
    "octoprint_excluderegion was not imported from %s but from %s" % (REPO, PKG.__file__)

RR_MOD = sys.modules["octoprint_excluderegion.RectangularRegion"]   # package attrs are the classes
CR_MOD = sys.modules["octoprint_excluderegion.CircularRegion"]
from octoprint_excluderegion.ExcludeRegionState import ExcludeRegionState, IGNORE_GCODE_CMD  # noqa
from octoprint_excluderegion.GcodeHandlers import GcodeHandlers  # noqa
from octoprint_excluderegion.GcodeParser import GcodeParser  # noqa
from octoprint_excluderegion.RectangularRegion import RectangularRegion  # noqa
from octoprint_excluderegion.CircularRegion import CircularRegion  # noqa
from octoprint_excluderegion.StreamProcessor import StreamProcessor  # noqa

class FrozenClock(object):
    """Stand-in for the `time` module inside the plugin's modules: the wall clock does not advance while a
    history is explored.  The properties have no time component; on the pinned tree time.time() only feeds log
    text.  A frozen clock keeps every execution deterministic even if a change stores timestamps or elapsed
    times in the filter's state (they would otherwise differ from run to run and defeat de-duplication and
    the replay-twice determinism rule).  Everything except the clock readers is passed through."""
    T0 = 1790000000.0

    def __init__(self, real):
        self._real = real

    def time(self):
        return self.T0

    def monotonic(self):
        return 1000.0

    def perf_counter(self):
        return 1000.0

    def time_ns(self):
        return int(self.T0 * 1e9)

    def __getattr__(self, name):
        return getattr(self._real, name)


def freeze_clock():
    import time as _time
    frozen = FrozenClock(_time)
    for name, mod in list(sys.modules.items()):
        if not name.startswith("octoprint_excluderegion") or mod is None:
            continue
        for attr, val in list(vars(mod).items()):
            if val is _time:
                setattr(mod, attr, frozen)
            elif val is _time.time:
                setattr(mod, attr, frozen.time)
            elif val is _time.monotonic:
                setattr(mod, attr, frozen.monotonic)
            elif val is _time.perf_counter:
                setattr(mod, attr, frozen.perf_counter)


freeze_clock()

LOGGER_NAME = "octoprint.plugins.excluderegion"
LOG = logging.getLogger(LOGGER_NAME)
LOG.addHandler(logging.NullHandler())
LOG.setLevel(logging.ERROR)
LOG.propagate = False

APP = flask.Flask("erverif")


class User(object):
    def __init__(self, anon):
        self.anon = anon

    def is_anonymous(self):
        return self.anon

    # flask-login >= 0.3 exposes a property; the plugin calls it, so keep the method form only


class PluginManager(object):
    """Recording stand-in for OctoPrint's plugin manager (only send_plugin_message is used)."""

    def __init__(self):
        self.msgs = []

    def send_plugin_message(self, ident, data, *a, **kw):
        self.msgs.append(json.loads(json.dumps(data, default=lambda o: o.toDict())))


class Comm(object):
    """Stand-in for MachineCom as seen by the hooks."""

    def __init__(self):
        self.sent = []
        self.streaming = False

    def isStreaming(self):
        return self.streaming

    def sendCommand(self, cmd, *a, **kw):
        self.sent.append(cmd)


class Uuid(object):
    """Deterministic replacement of the uuid module inside the region modules."""

    def __init__(self, n=0):
        self.n = n

    def uuid4(self):
        self.n += 1
        return "u%d" % self.n


def install_uuid(u):
    RR_MOD.uuid = u
    CR_MOD.uuid = u


DEFAULT_EXT = [
    {"gcode": "G4", "mode": "exclude", "description": ""},
    {"gcode": "M106", "mode": "first", "description": ""},
    {"gcode": "M117", "mode": "last", "description": ""},
    {"gcode": "M204", "mode": "merge", "description": ""},
    {"gcode": "M205", "mode": "merge", "description": ""},
]


def default_at_actions():
    return [
        {"command": "ExcludeRegion", "parameterPattern": "^\\s*(enable|on)(\\s|$)",
         "action": "enable_exclusion", "description": ""},
        {"command": "ExcludeRegion", "parameterPattern": "^\\s*(disable|off)(\\s|$)",
         "action": "disable_exclusion", "description": ""},
    ]


class SettingsValues(object):
    """The values a world relies on; pushed into OctoPrint's global settings before every read."""

    def __init__(self, clear=False, shrink=False, g90e=False, enter=None, exit=None, ext=None, at=None):
        self.clear = clear
        self.shrink = shrink
        self.g90e = g90e
        self.enter = enter
        self.exit = exit
        self.ext = [dict(e) for e in (DEFAULT_EXT if ext is None else ext)]
        self.at = [dict(a) for a in (default_at_actions() if at is None else at)]


def push_settings(plugin, sv):
    s = plugin._settings
    s.set_boolean(["clearRegionsAfterPrintFinishes"], sv.clear)
    s.set_boolean(["mayShrinkRegionsWhilePrinting"], sv.shrink)
    s.set(["enteringExcludedRegionGcode"], sv.enter)
    s.set(["exitingExcludedRegionGcode"], sv.exit)
    s.set(["extendedExcludeGcodes"], [dict(e) for e in sv.ext])
    s.set(["atCommandActions"], [dict(a) for a in sv.at])
    s.set(["loggingMode"], "octoprint")
    _octo_settings().setBoolean(["feature", "g90InfluencesExtruder"], sv.g90e)


def new_plugin(sv, pm):
    """A real ExcludeRegionPlugin, wired the way OctoPrint's plugin core would, then initialize()d."""
    p = PKG.ExcludeRegionPlugin()
    p._identifier = "excluderegion"
    p._plugin_name = "Exclude Region"
    p._plugin_version = "verif"
    p._logger = LOG
    p._plugin_manager = pm
    pre = p.get_settings_preprocessors()
    p._settings = plugin_settings(p._identifier, defaults=p.get_settings_defaults(),
                                  get_preprocessors=pre[1], set_preprocessors=pre[0])
    push_settings(p, sv)
    p.initialize()
    return p


def set_user(anon):
    PKG.current_user = User(anon)


def decode(cmd, result):
    """OctoPrint's reading of a gcode.queuing hook result: the list of commands forwarded.

    None -> the command itself; (None,) / [None] -> nothing; str -> that command; list -> its elements
    (tuples are (cmd, cmd_type[, tags]) and None elements suppress).  This is the single place where
    result shapes are interpreted for the A/B printers; C09 checks the shape itself.
    """
    if result is None:
        return [cmd]
    if isinstance(result, str):
        return [result]
    if isinstance(result, tuple):
        if len(result) == 0 or result[0] is None:
            return []
        return [result[0]]
    out = []
    for item in result:
        if isinstance(item, tuple):
            item = item[0] if item else None
        if item is not None:
            out.append(item)
    return out


# ---- state the package keeps outside its instances -------------------------------------------------------
# Module-level variables, class-level data attributes and mutable default arguments of the package are state like
# any other: a world owns a copy of them (captured after every step, re-installed before the next one), so that an
# execution depends on its own history only, not on what the worker process ran before, and the canonical key
# covers them.  On the pinned tree these are constants.
import collections as _collections, types as _types  # noqa: E402

_DATA_TYPES = (bool, int, float, str, bytes, type(None), tuple, list, dict, set, frozenset, bytearray,
               _collections.OrderedDict, _collections.deque)
_MUTABLE = (list, dict, set, bytearray, _collections.deque)


_MODS = [0, []]


def _pkg_modules():
    if _MODS[0] != len(sys.modules):          # a module was imported since the last look
        name = PKG.__name__
        _MODS[1] = [m for n, m in sorted(sys.modules.items()) if m is not None and (n == name or n.startswith(name + "."))]
        _MODS[0] = len(sys.modules)
    return _MODS[1]


def _is_data(v):
    return isinstance(v, _DATA_TYPES) or (getattr(type(v), "__module__", "") or "").startswith(PKG.__name__)


def _fn_of(v):
    v = getattr(v, "__func__", v)
    return v if isinstance(v, _types.FunctionType) else None


_SKIP_TYPES = (_types.FunctionType, _types.BuiltinFunctionType, _types.ModuleType, property, staticmethod, classmethod,
               _types.MethodType, type(__import__("re").compile("")))
_DEFAULTS = None       # functions of the package that have a mutable default argument (found once: code is fixed)


def _find_defaults():
    out = []
    for m in _pkg_modules():
        for k, v in list(vars(m).items()):
            if isinstance(v, type) and (v.__module__ or "") == m.__name__:
                for ck, cv in list(vars(v).items()):
                    fn = _fn_of(cv)
                    if fn is not None and fn.__defaults__ and any(isinstance(d, _MUTABLE) for d in fn.__defaults__):
                        out.append((("d", m.__name__, k, ck), fn))
            elif isinstance(v, _types.FunctionType) and v.__module__ == m.__name__ and v.__defaults__ and \
                    any(isinstance(d, _MUTABLE) for d in v.__defaults__):
                out.append((("f", m.__name__, k), v))
    return out


_CAND = {}     # namespace -> (number of names, candidate names): names bound to code/modules/foreign classes at
               # first sight are not looked at again until the namespace gains or loses a name


def _candidates(ns, owner_mod, want_classes, ckey):
    ent = _CAND.get(ckey)
    if ent is None or ent[0] != len(ns):
        names, classes = [], []
        for k, v in list(ns.items()):
            if k[:2] == "__":
                continue
            if isinstance(v, type):
                if want_classes and v.__module__ == owner_mod:
                    classes.append(k)
                continue
            if isinstance(v, _SKIP_TYPES):
                continue
            names.append(k)
        ent = (len(ns), names, classes)
        _CAND[ckey] = ent
    return ent[1], ent[2]


_FUNCS = None          # every function / method object of the package (for function attributes), found once
_OPAQUE = None         # functools.lru_cache wrappers of the package: state that can be cleared but not read or copied


def _scan_functions():
    global _FUNCS, _OPAQUE
    import functools
    funcs, opaque = [], []
    wrapper_type = type(functools.lru_cache(maxsize=1)(lambda: None))
    for m in _pkg_modules():
        for k, v in list(vars(m).items()):
            if isinstance(v, wrapper_type):
                opaque.append(((m.__name__, k), v))
            elif isinstance(v, _types.FunctionType) and v.__module__ == m.__name__:
                funcs.append((("a", m.__name__, k), v))
            elif isinstance(v, type) and (v.__module__ or "") == m.__name__:
                for ck, cv in list(vars(v).items()):
                    raw = getattr(cv, "__func__", cv)
                    if isinstance(raw, wrapper_type):
                        opaque.append(((m.__name__, k, ck), raw))
                    elif isinstance(raw, _types.FunctionType):
                        funcs.append((("a", m.__name__, k, ck), raw))
    _FUNCS, _OPAQUE = funcs, opaque


def opaque_caches():
    """lru_cache-wrapped functions of the package.  Their contents cannot be copied with a world; when any exists
    the engine stops copying worlds and replays every history from a fresh start instead (engine._expand_one)."""
    if _OPAQUE is None:
        _scan_functions()
    return _OPAQUE


def clear_opaque_caches():
    for _, w in opaque_caches():
        w.cache_clear()


def capture_pkg_state():
    global _DEFAULTS
    if _DEFAULTS is None:
        _DEFAULTS = _find_defaults()
    if _FUNCS is None:
        _scan_functions()
    out = {}
    for m in _pkg_modules():
        mname = m.__name__
        ns = vars(m)
        names, classes = _candidates(ns, mname, True, mname)
        for k in names:
            v = ns.get(k)
            if not callable(v) and _is_data(v):
                out[("m", mname, k)] = v
        for k in classes:
            cls = ns.get(k)
            if not isinstance(cls, type):
                continue
            cns = vars(cls)
            for ck in _candidates(cns, mname, False, (mname, k))[0]:
                cv = cns.get(ck)
                if not callable(cv) and _is_data(cv):
                    out[("c", mname, k, ck)] = cv
    for key, fn in _DEFAULTS:
        out[key] = fn.__defaults__
    for key, fn in _FUNCS:
        if fn.__dict__:                      # function attributes (def f(): ...; f.cache = {})
            d = dict((ak, av) for ak, av in fn.__dict__.items() if not ak.startswith("__") and _is_data(av))
            if d:
                out[key] = d
    _LIVE_KEYS[0] = frozenset(out)
    return out


_LIVE_KEYS = [frozenset()]     # keys present in the live modules (as of the last capture / install in this process)


def _remove_live(key):
    mod = sys.modules.get(key[1])
    if mod is None:
        return
    try:
        if key[0] == "m":
            delattr(mod, key[2])
        elif key[0] == "c":
            delattr(getattr(mod, key[2]), key[3])
        elif key[0] == "a":
            owner = getattr(mod, key[2])
            fn = _fn_of(owner) if len(key) == 3 else _fn_of(vars(owner)[key[3]])
            for ak in [x for x in fn.__dict__ if not x.startswith("__")]:
                del fn.__dict__[ak]
    except (AttributeError, KeyError):
        pass


def install_pkg_state(st):
    ks = frozenset(st)
    if ks != _LIVE_KEYS[0]:
        for key in _LIVE_KEYS[0] - ks:       # created by another world's history: not part of this one
            _remove_live(key)
        _LIVE_KEYS[0] = ks
    for key, v in st.items():
        mod = sys.modules.get(key[1])
        if mod is None:
            continue
        if key[0] == "m":
            setattr(mod, key[2], v)
        elif key[0] == "c":
            setattr(getattr(mod, key[2]), key[3], v)
        elif key[0] == "d":
            fn = _fn_of(vars(getattr(mod, key[2]))[key[3]])
            if fn.__defaults__ is not v:
                fn.__defaults__ = v
        elif key[0] == "a":
            owner = getattr(mod, key[2])
            fn = _fn_of(owner) if len(key) == 3 else _fn_of(vars(owner)[key[3]])
            for ak in [x for x in fn.__dict__ if not x.startswith("__") and x not in v]:
                del fn.__dict__[ak]
            fn.__dict__.update(v)
        elif key[0] == "f":
            if getattr(mod, key[2]).__defaults__ is not v:
                getattr(mod, key[2]).__defaults__ = v


import pickle as _pickle  # noqa: E402
_PRISTINE = _pickle.dumps(capture_pkg_state(), -1)
_PRISTINE_KEYS = set(_pickle.loads(_PRISTINE))


def pristine_pkg_state():
    """A fresh copy of the package's import-time state (what a newly started OctoPrint would have)."""
    return _pickle.loads(_PRISTINE)


def reset_pkg_state():
    install_pkg_state(pristine_pkg_state())
    clear_opaque_caches()
