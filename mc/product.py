"""Product of two worlds driven by the same abstract tool path under two encodings (C08)."""
import hashlib, pickle
from fractions import Fraction as Fr

from .engine import Violation
from .world import World, POINTS, GEO, TOL

SWITCH_EVENTS = {"inch": ("INCH",), "rel": ("REL",), "g92": ("G92XYZ", 16, -8, 3)}
POS_TOL = Fr(1, 10 ** 4)


def translated(points, geo, dx, dy):
    pts = {k: (Fr(x) + dx, Fr(y) + dy) for k, (x, y) in points.items()}
    g2 = {}
    for k, g in geo.items():
        g = dict(g)
        if g.get("type") == "RectangularRegion":
            g.update(x1=g["x1"] + dx, x2=g["x2"] + dx, y1=g["y1"] + dy, y2=g["y2"] + dy)
        elif g.get("type") == "CircularRegion":
            g.update(cx=g["cx"] + dx, cy=g["cy"] + dy)
        g2[k] = g
    return pts, g2


class ProductWorld(object):
    def __init__(self, cfg):
        self.cfg = cfg
        self.prop = cfg.get("prop", "C08")
        self.T = cfg["T"]
        base_cfg = dict(cfg["world"])
        var_cfg = dict(cfg["world"])
        self.dx = self.dy = Fr(0)
        if self.T == "translate":
            self.dx, self.dy = Fr(16), Fr(-8)
            pts, geo = translated(POINTS, GEO, 16, -8)
            var_cfg.update(points=pts, geo=geo, origin=(26, 2), preamble=("G28", "G1 X26 Y2 Z1 F3000"))
        self.base_cfg, self.var_cfg = base_cfg, var_cfg
        self.base = World(base_cfg)
        self.var = World(var_cfg)
        self.switched = self.T == "translate"
        self.last_detail = None

    # ---- engine interface
    needs_replay = classmethod(lambda cls: World.needs_replay())
    reset_process_state = classmethod(lambda cls: World.reset_process_state())

    def snapshot(self):
        return pickle.dumps((self.base.snapshot(), self.var.snapshot(), self.switched), -1)

    @classmethod
    def restore(cls, snap, cfg):
        o = cls.__new__(cls)
        o.cfg = cfg
        o.prop = cfg.get("prop", "C08")
        o.T = cfg["T"]
        b, v, sw = pickle.loads(snap)
        base_cfg = dict(cfg["world"])
        var_cfg = dict(cfg["world"])
        o.dx = o.dy = Fr(0)
        if o.T == "translate":
            o.dx, o.dy = Fr(16), Fr(-8)
            pts, geo = translated(POINTS, GEO, 16, -8)
            var_cfg.update(points=pts, geo=geo, origin=(26, 2), preamble=("G28", "G1 X26 Y2 Z1 F3000"))
        o.base_cfg, o.var_cfg = base_cfg, var_cfg
        o.base = World.restore(b, base_cfg)
        o.var = World.restore(v, var_cfg)
        o.switched = sw
        o.last_detail = None
        return o

    def key(self):
        return hashlib.blake2b(self.base.key() + self.var.key() + (b"1" if self.switched else b"0"),
                               digest_size=16).digest()

    def enabled(self, menu):
        eb = set(self.base.enabled([e for e in menu if e[0] != "SWITCH"]))
        out = []
        j = 0
        for i, ev in enumerate(menu):
            if ev[0] == "SWITCH":
                if not self.switched and not (self.T == "g92" and (self.base.episode or self.var.episode)):
                    out.append(i)
                continue
            if j in eb and not (self.switched and ev in self.cfg.get("pre_switch_only", ())):
                out.append(i)
            j += 1
        return out

    def viol(self, msg):
        raise Violation(self.prop, msg)

    @staticmethod
    def decision(st):
        f = st.feeds[-1] if st.feeds else None
        if f is None or f.kind != "gcode":
            return "n/a"
        if f.result is None or f.fwd == [f.cmd]:
            return "verbatim"
        if not f.fwd:
            return "suppressed"
        return "rewritten" if f.cmd not in f.fwd else "augmented"

    def step(self, ev):
        if ev[0] == "SWITCH":
            sv = self.var.step(SWITCH_EVENTS[self.T])
            self.switched = True
            sv.tags.add("switch")
            self._last = (None, sv)
            return sv
        self.base.install()
        sb = self.base.step(ev)
        sv = self.var.step(ev)
        db, dv = self.decision(sb), self.decision(sv)
        enc = {"inch": "inches", "rel": "relative coordinates", "g92": "a re-based origin (G92 X Y Z)",
               "translate": "path and regions translated by (16, -8)"}[self.T]
        cb = sb.feeds[-1].cmd if sb.feeds else None
        cv = sv.feeds[-1].cmd if sv.feeds else None
        if db != dv:
            self.viol("C08 decision differs under %s: %r is %s in the reference encoding, %r is %s in the re-encoded "
                      "program (outputs %r vs %r)" % (enc, cb, db, cv, dv, sb.feeds[-1].fwd, sv.feeds[-1].fwd))
        if self.base.episode != self.var.episode:
            self.viol("C08 episode boundaries differ under %s after %r / %r" % (enc, cb, cv))
        if not self.base.episode:
            A, V = self.base.A, self.var.A
            for ax, d in (("X", self.dx), ("Y", self.dy), ("Z", Fr(0))):
                if A.p[ax] is None or V.p[ax] is None:
                    continue
                if abs((V.p[ax] - d) - A.p[ax]) > POS_TOL:
                    self.viol("C08 physical %s differs under %s after %r / %r: %s vs %s"
                              % (ax, enc, cb, cv, float(A.p[ax]), float(V.p[ax] - d)))
        sv.tags = set(sb.tags) | {"decision:" + db} | ({"post-switch"} if self.switched else set())
        self._last = (sb, sv)
        return sv

    def tags(self, st):
        return set(st.tags)

    def outdigest(self, st):
        return self.var.outdigest(st)

    def describe(self, ev, st):
        d = self.var.describe(ev, st)
        sb = getattr(self, "_last", (None, None))[0]
        if sb is not None and sb.feeds:
            d["reference_encoding"] = [dict(cmd=f.cmd, forwarded=f.fwd) for f in sb.feeds]
        return d
