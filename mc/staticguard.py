"""Guard for the canonical key's exclusions (DESIGN 3.3): the fields left out of the key
(numCommands, numExcludedCommands, excludeStartTime) must be log-only on the current tree: every *read*
must sit inside the argument list of a self._logger.*() call or be the target of an augmented assignment.
If not, the harness refuses to merge states on a key that ignores them."""
import ast, os

from . import harness as H
from .engine import HarnessError

FIELDS = ("numCommands", "numExcludedCommands", "excludeStartTime")


def check():
    pkg = os.path.join(H.REPO, "octoprint_excluderegion")
    bad = []
    for fn in sorted(os.listdir(pkg)):
        if not fn.endswith(".py"):
            continue
        src = open(os.path.join(pkg, fn), "rb").read().decode("utf-8")
        tree = ast.parse(src)
        parents = {}
        for node in ast.walk(tree):
            for ch in ast.iter_child_nodes(node):
                parents[ch] = node
        for node in ast.walk(tree):
            if isinstance(node, ast.Attribute) and node.attr in FIELDS and isinstance(node.ctx, ast.Load):
                ok = False
                cur = node
                while cur in parents:
                    par = parents[cur]
                    if isinstance(par, ast.Call) and cur is not par.func:
                        fnode = par.func
                        if isinstance(fnode, ast.Attribute) and isinstance(fnode.value, ast.Attribute) \
                                and fnode.value.attr == "_logger":
                            ok = True
                            break
                    cur = par
                if not ok:
                    bad.append("%s:%d %s" % (fn, node.lineno, node.attr))
    if bad:
        # the field is read on a control path of this tree: it is part of the state, so it goes back into the
        # canonical key (scenarios may then lose their fix-point and run into their caps; the evidence says so)
        from . import world
        fields = sorted(set(b.split(" ")[-1] for b in bad))
        for fld in fields:
            world.SKIP_ATTRS.discard(fld)
        return ("fields %s are read on a control path (%s): kept in the canonical key" % (", ".join(fields), ", ".join(bad)))
    return "log-only fields %s are read only inside logger calls (ast scan of %s)" % (", ".join(FIELDS), pkg)
