"""Which attributes may be left out of the canonical key (DESIGN 3.3)?

An attribute of the implementation is *write-only* on the current tree when every read of it in the package
sits (a) inside the argument list of a logger call, (b) on the right-hand side of an assignment to that same
attribute (self.n = self.n + 1), or is (c) the container of a store / augmented assignment / mutating-method
statement (self.stats["x"] += 1, self.seen.append(v)).  Such an attribute (statistics, counters, "last
command" fields kept for logging, timestamps) cannot influence what the filter returns, so two states that
differ only in it have the same futures and may be merged.  Every attribute with any other read is part of the
state and stays in the key.  The scan is an ast walk of the working tree's package, done once per check run
before the workers fork; its result is recorded in the evidence.

This is a syntactic over-approximation of "read": generic copies (obj.__dict__, deepcopy) are not reads of a
particular attribute.  The engine's shadow check (successor signatures of merged states must agree) is the
dynamic safety net behind it.
"""
import ast, os

from . import harness as H

ALWAYS_KEEP = set()        # names never skipped, whatever the scan says
MUTATORS = {"append", "extend", "add", "update", "clear", "pop", "popitem", "remove", "discard", "insert",
            "setdefault", "appendleft", "sort", "reverse"}
LOGGER_NAMES = {"_logger", "logger", "log", "_log", "LOG"}


def _is_logger_call(call):
    f = call.func
    if not isinstance(f, ast.Attribute):
        return False
    v = f.value
    if isinstance(v, ast.Attribute) and v.attr in LOGGER_NAMES:
        return True
    if isinstance(v, ast.Name) and v.id in LOGGER_NAMES:
        return True
    return False


def scan(pkg):
    written = set()
    reads = {}            # attr -> list of (file, line, benign)
    for fn in sorted(os.listdir(pkg)):
        if not fn.endswith(".py"):
            continue
        src = open(os.path.join(pkg, fn), "rb").read().decode("utf-8")
        tree = ast.parse(src)
        parents = {}
        for node in ast.walk(tree):
            for ch in ast.iter_child_nodes(node):
                parents[ch] = node
        for node in ast.walk(tree):
            if not isinstance(node, ast.Attribute):
                continue
            name = node.attr
            if isinstance(node.ctx, (ast.Store, ast.Del)):
                if isinstance(node.value, ast.Name) and node.value.id == "self":
                    written.add(name)
                continue
            par = parents.get(node)
            # method call on the attribute: obj.attr(...) -- not a data read of `attr`
            if isinstance(par, ast.Call) and par.func is node:
                continue
            benign = False
            # (c) container of a store: self.X[k] = v / self.X[k] += v / del self.X[k]
            if isinstance(par, ast.Subscript) and par.value is node and isinstance(par.ctx, (ast.Store, ast.Del)):
                benign = True
            # (c) mutating method as a statement: self.X.append(v)
            if isinstance(par, ast.Attribute) and par.value is node and par.attr in MUTATORS:
                call = parents.get(par)
                if isinstance(call, ast.Call) and call.func is par and isinstance(parents.get(call), ast.Expr):
                    benign = True
            # (a) inside a logger call's arguments; (b) right-hand side of an assignment to the same attribute
            cur = node
            while not benign and cur in parents:
                p = parents[cur]
                if isinstance(p, ast.Call) and cur is not p.func and _is_logger_call(p):
                    benign = True
                    break
                if isinstance(p, ast.AugAssign) and isinstance(p.target, ast.Attribute) and p.target.attr == name:
                    benign = True
                    break
                if isinstance(p, ast.AugAssign) and isinstance(p.target, ast.Subscript) and \
                        isinstance(p.target.value, ast.Attribute) and p.target.value.attr == name:
                    benign = True
                    break
                if isinstance(p, ast.Assign) and cur is p.value and len(p.targets) == 1 and \
                        isinstance(p.targets[0], ast.Attribute) and p.targets[0].attr == name:
                    benign = True
                    break
                if isinstance(p, (ast.FunctionDef, ast.ClassDef, ast.Module)):
                    break
                cur = p
            reads.setdefault(name, []).append((fn, node.lineno, benign))
    return written, reads


def scan_module_names(pkg):
    """Module-level variables that are only ever updated and logged (per-process counters, "last ..." records):
    returns {(module file stem, name)}.  Same rules as for attributes, applied to ast.Name nodes of the defining
    module; a name that any other module imports, or that is reached as `module.NAME`, counts as read."""
    out = set()
    trees = {}
    for fn in sorted(os.listdir(pkg)):
        if fn.endswith(".py"):
            trees[fn[:-3]] = ast.parse(open(os.path.join(pkg, fn), "rb").read().decode("utf-8"))
    imported, attr_names = set(), set()
    for stem, tree in trees.items():
        for node in ast.walk(tree):
            if isinstance(node, ast.ImportFrom):
                for al in node.names:
                    imported.add(al.name)
            elif isinstance(node, ast.Attribute):
                attr_names.add(node.attr)
    for stem, tree in trees.items():
        top = set()
        for node in tree.body:
            targets = node.targets if isinstance(node, ast.Assign) else ([node.target] if isinstance(node, ast.AnnAssign) else [])
            for t in targets:
                if isinstance(t, ast.Name):
                    top.add(t.id)
        for node in ast.walk(tree):
            if isinstance(node, ast.Global):
                top.update(node.names)
        parents = {}
        for node in ast.walk(tree):
            for ch in ast.iter_child_nodes(node):
                parents[ch] = node
        verdict = {}
        for node in ast.walk(tree):
            if not isinstance(node, ast.Name) or node.id not in top or not isinstance(node.ctx, ast.Load):
                continue
            name = node.id
            par = parents.get(node)
            benign = False
            if isinstance(par, ast.Subscript) and par.value is node and isinstance(par.ctx, (ast.Store, ast.Del)):
                benign = True
            if isinstance(par, ast.Attribute) and par.value is node and par.attr in MUTATORS:
                call = parents.get(par)
                if isinstance(call, ast.Call) and call.func is par and isinstance(parents.get(call), ast.Expr):
                    benign = True
            cur = node
            while not benign and cur in parents:
                p = parents[cur]
                if isinstance(p, ast.Call) and cur is not p.func and _is_logger_call(p):
                    benign = True
                    break
                if isinstance(p, ast.AugAssign):
                    t = p.target
                    if (isinstance(t, ast.Name) and t.id == name) or \
                            (isinstance(t, ast.Subscript) and isinstance(t.value, ast.Name) and t.value.id == name):
                        benign = True
                        break
                if isinstance(p, ast.Assign) and cur is p.value and len(p.targets) == 1:
                    t = p.targets[0]
                    if (isinstance(t, ast.Name) and t.id == name) or \
                            (isinstance(t, ast.Subscript) and isinstance(t.value, ast.Name) and t.value.id == name):
                        benign = True
                        break
                if isinstance(p, (ast.FunctionDef, ast.ClassDef, ast.Module)):
                    break
                cur = p
            verdict[name] = verdict.get(name, True) and benign
        for name in top:
            if name in imported or name in attr_names or name.startswith("__"):
                continue
            if verdict.get(name, False):          # has reads, all of them benign
                out.add((stem, name))
    return out


def check():
    """Adjusts world.SKIP_ATTRS for the current tree and returns a note for the evidence."""
    from . import world
    pkg = os.path.join(H.REPO, "octoprint_excluderegion")
    written, reads = scan(pkg)
    write_only = set()
    for name in written:
        if name in ALWAYS_KEEP or name.startswith("__"):
            continue
        rs = reads.get(name, [])
        if all(b for _, _, b in rs):
            write_only.add(name)
    base = {"_logger", "gcodeParser"}
    world.SKIP_ATTRS.clear()
    world.SKIP_ATTRS.update(base | write_only)
    world.SKIP_PKG.clear()
    world.SKIP_PKG.update(scan_module_names(pkg))
    return ("attributes left out of the canonical key because every read of them in %s is a logger argument, a "
            "self-update or a container store (ast scan): %s; module-level variables left out for the same reason: %s"
            % (pkg, ", ".join(sorted(write_only)) or "none",
               ", ".join(sorted("%s.%s" % k for k in world.SKIP_PKG)) or "none"))
