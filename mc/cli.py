"""./check <ID>|all|selfcheck [--tier quick|thorough] [--replay FILE]

exit 0: the property held on everything explored (KNOWN-FINDING lines may be printed)
exit 1: a violation not listed in known_findings.json; line "VIOLATION property=<id> replay=<path>"
exit 2: the machinery is broken (divergent replay, unsound abstraction, reference-model crash)
"""
import argparse, hashlib, importlib, json, os, sys, time, traceback

ROOT = os.path.dirname(os.path.dirname(os.path.abspath(__file__)))


def log(msg):
    sys.stdout.write(msg + "\n")
    sys.stdout.flush()


def main(argv=None):
    ap = argparse.ArgumentParser()
    ap.add_argument("prop")
    ap.add_argument("--tier", default=os.environ.get("VERIF_TIER", "quick"), choices=["quick", "thorough"])
    ap.add_argument("--replay")
    ap.add_argument("--seed", type=int, default=None)
    ap.add_argument("--verbose", "-v", action="store_true")
    args = ap.parse_args(argv)
    try:
        seed = int(os.environ.get("VERIF_SEED", "0")) if args.seed is None else args.seed
    except ValueError:
        seed = int(hashlib.md5(os.environ["VERIF_SEED"].encode()).hexdigest()[:8], 16)
    pid = args.prop.upper()
    from . import runner
    try:
        if args.replay:
            return runner.replay_file(pid, args.replay)
        if pid == "SELFCHECK":
            return runner.selfcheck(seed)
        mod = importlib.import_module("mc.props." + pid.lower())
        return runner.run_property(pid, mod, args.tier, seed, verbose=args.verbose)
    except runner.HarnessError as e:
        log("HARNESS-ERROR property=%s %s" % (pid, e))
        return 2
    except Exception:
        log("HARNESS-ERROR property=%s unexpected exception\n%s" % (pid, traceback.format_exc()))
        return 2
    finally:
        from . import engine
        engine.close_pool()


if __name__ == "__main__":
    sys.exit(main())
