"""C09 -- filtering is total and protocol-conformant (E2: all command sequences over a wide grammar)."""
import io, itertools

from .. import engine
from .. import harness as H

RULE = ("all sequences (length 1..N) over a grammar of ~400 commands -- every handled code and several unhandled "
        "ones x parameter spellings {missing, valueless, repeated, signed, +5, .5, 5., huge, tiny, zero} and "
        "degenerate arcs {I0 J0, R0, R too small, full circle, end = start with R, end collinear with centre and "
        "start, only I, only R, I+J+R} -- issued after homing, x region sets {none, rectangle, disc} x {inside an "
        "episode at the start or not} x both entry points (gcode.queuing hook of the plugin, "
        "StreamProcessor.process_line); non-trivial = sequences whose last command was not simply passed "
        "through (suppressed, rewritten, or a handled state-changing code); sequences are distinct by construction")
ASSUMPTIONS = ["arc radii are capped at 1000: a radius of 1e15 makes planArc allocate 1e15 points, which is "
               "non-termination, not an exception, and outside what the property states",
               "commands are parseable G-code as OctoPrint would hand them to the hook (comments stripped)"]


def grammar():
    cmds = set()
    for code in ("G0", "G1"):
        for x in ("", "X50", "X70", "X", "X-5", "X+5", "X.5", "X5.", "X1000000000000000", "X0.0000001", "X5 X50", "X0"):
            for rest in ("", "Y40", "Y65 Z2", "E5", "E-5", "F0", "F", "E1 E2", "Z", "Z2", "Y40 E-1", "F3000 E0.0000001"):
                cmds.add((code + " " + x + " " + rest).strip())
    for code in ("G2", "G3"):
        for end in ("", "X0 Y0", "X-5 Y0", "X10 Y0", "X50 Y40", "X5 Y5 Z2 E1", "X10", "X20 Y10", "X15 Y10"):
            for ctr in ("", "I0 J0", "I5 J0", "I5", "J-5", "R0", "R1", "R5", "R-5", "R500", "I5 J5 R5", "I0.0000001",
                        "I1000 J0", "R", "I J", "I-5 J0", "I2.5 J0", "R4.999", "R-4.9975", "R5.0000001", "R2.4999999"):
                cmds.add((code + " " + end + " " + ctr).strip())
    cmds.update(["G10", "G10 S1", "G10 P1", "G10 L2 X5", "G11", "G11 S1", "G20", "G21", "G28", "G28 X", "G28 X0 Y0",
                 "G28 W", "G28 Z", "G90", "G91", "G92", "G92 E0", "G92 X5 Y5 Z5 E5", "G92 X", "G92 X1000000000000000",
                 "G92 E-0.0000001", "M206", "M206 X5", "M206 X Y Z", "M206 X-5 Z0.5", "G4 P100", "M117 hello world",
                 "M117", "M204 S500", "M204 S", "M204 S0.0000001 T1000000000000000", "M205 X5 Y", "M106 S255", "M106",
                 "M73 P5 R10", "M999", "T0", "T1", "G5 X1", "M82", "M83", "G29", "M400", "G38.2 Z5", "M204 Hello ; x",
                 "G1.5 X5", "M117 E1e-05", "G0 X1e5",
                 # spellings of the firmware retraction the filter has to re-generate (ninth wave, w9c09)
                 "g10 s1", "g11 s1", "g10", "G10\tS1", "G10S1"])
    return sorted(cmds)


def small_grammar(cmds):
    keep = []
    for c in cmds:
        code = c.split()[0]
        if code in ("G2", "G3"):
            if any(t in c for t in ("X-5 Y0", "X20 Y10", "X50 Y40")) or c in ("G2", "G3 I5 J0", "G2 R5", "G3 X10 R-5"):
                if any(t in c for t in ("I5 J0", "R5", "R0", "I0 J0", "R-5", "I-5 J0")) or len(c) < 3:
                    keep.append(c)
        elif code in ("G0", "G1"):
            if c in ("G1 X50 Y40", "G1 X70 Y65 Z2", "G1 E-5", "G1 E5", "G1 X50 E-5", "G0 X70", "G1 Z", "G1 Z2", "G1 F", "G0 X",
                     "G1 X50 Y40 E-1", "G1 X1000000000000000", "G1 X0.0000001 E5", "G0 X5 X50 E1 E2"):
                keep.append(c)
        else:
            keep.append(c)
    return keep


CONFIGS = [(regs, inside) for regs in ((), ("R",), ("D",), ("R", "D")) for inside in (False, True)] + \
          [(("R",), "added"),      # index 8: the region is drawn around the nozzle (no episode open yet)
           (("R",), "mixed")]      # index 9: inside an episode, E-only cycle skipped, then a G10/G11 cycle skipped


def shape_ok(r):
    if r is None:
        return True
    if isinstance(r, tuple):
        return 1 <= len(r) <= 3 and r[0] is None
    if isinstance(r, list):
        return len(r) > 0 and all(isinstance(x, str) and len(x) > 0 for x in r)
    return False


_BASE = {}
_G = {}


def base(ci):
    import os
    from ..world import World
    key = (ci, os.getpid())
    if key not in _BASE:
        regs, inside = CONFIGS[ci]
        if inside == "added":
            w = World(dict(prop="C09", monitors=(), regions=[], key_depth=False, exit="M400\n"))
            w.step(("RAW", "G1 X50 Y40"))
            w.step(("ADD", "R", "r"))
        else:
            w = World(dict(prop="C09", monitors=(), regions=list(regs), key_depth=False, exit="M400\n"))
        if inside == "mixed":
            for c in ("G1 X50 Y40", "G1 E-1 F1800", "G1 E0 F1800", "G10", "G11"):
                w.step(("RAW", c))
        if inside is True:
            w.step(("RAW", "G1 X50 Y40 E-1" if regs else "G1 X50 Y40"))
            w.step(("RAW", "M204 S5"))
        _BASE[key] = (w.snapshot(), dict(prop="C09", monitors=(), regions=list(regs), key_depth=False))
    return _BASE[key]


def hook(plugin, comm, cmd):
    g, sc = _G[cmd]
    return plugin.handleGcodeQueuing(comm, "queuing", cmd, None, g, sc, tags=set())


def run_seq(ci, entry, seq):
    """Plain re-execution of one sequence; returns violation message or None."""
    from ..world import World
    snap, cfg = base(ci)
    w = World.restore(snap, cfg)
    return _run(w, entry, seq)[0]


def _run(w, entry, seq):
    nontrivial = False
    if entry == "hook":
        for c in seq:
            if _G[c][0] is None:
                continue
            try:
                r = hook(w.plugin, w.comm, c)
            except Exception as e:   # noqa
                return "C09 hook raised %s: %s for %r in sequence %r" % (type(e).__name__, e, c, list(seq)), True
            if not shape_ok(r):
                return "C09 hook returned %r for %r in sequence %r" % (r, c, list(seq)), True
            nontrivial = r is not None or c.split()[0] in ("G20", "G21", "G28", "G90", "G91", "G92", "M206")
    else:
        sp = H.StreamProcessor(io.StringIO(""), w.plugin.gcodeHandlers)
        for c in seq:
            try:
                r = sp.process_line(c + "\n")
            except Exception as e:   # noqa
                return ("C09 StreamProcessor.process_line raised %s: %s for %r in sequence %r"
                        % (type(e).__name__, e, c, list(seq))), True
            if not (r is None or (isinstance(r, str) and len(r) > 0)):
                return "C09 StreamProcessor.process_line returned %r for %r in sequence %r" % (r, c, list(seq)), True
            nontrivial = r != c + "\n"
    return None, nontrivial


def _work(arg):
    from ..world import World
    ci, entry, first, depth, gram = arg
    cmds = _GRAM[gram]
    snap, cfg = base(ci)
    out = dict(n=0, nt=0, viol=[])
    sigs = set()

    def note(msg, seq):
        sig = " ".join(msg.split()[:4])
        if sig not in sigs and len(out["viol"]) < 3:
            sigs.add(sig)
            out["viol"].append(dict(msg=msg, input=dict(config=ci, entry=entry, seq=list(seq)), sig=sig))
    for rest in itertools.product(cmds, repeat=depth - 1):
        seq = (first,) + rest
        w = World.restore(snap, cfg)
        msg, nt = _run(w, entry, seq)
        out["n"] += 1
        if nt:
            out["nt"] += 1
        if msg:
            note(msg, seq)
    return out


_GRAM = {}


def prepare(ctx):
    full = grammar()
    _GRAM["full"] = full
    _GRAM["small"] = small_grammar(full)
    for c in full:
        _G[c] = H.gcode_and_subcode_for_cmd(c)
    global _FI
    _FI = engine.register_enum(_work)


def enumerate_inputs(ctx):
    full, small = _GRAM["full"], _GRAM["small"]
    tasks = []
    cfgs = [1, 3, 8, 9] if ctx.quick else list(range(len(CONFIGS)))
    for ci in cfgs:
        for entry in ("hook", "stream"):
            for first in full:
                tasks.append((ci, entry, first, 1, "full"))
                if ctx.quick:
                    if (entry == "hook" and ci in (3, 8)) or (entry == "stream" and ci == 3):
                        tasks.append((ci, entry, first, 2, "small" if entry == "stream" else "full"))
                    elif entry == "hook":
                        tasks.append((ci, entry, first, 2, "small"))
                else:
                    tasks.append((ci, entry, first, 2, "full"))
            if not ctx.quick and entry == "hook" and ci in (2, 3, 5):
                for first in small:
                    tasks.append((ci, entry, first, 3, "small"))
    tot = dict(n=0, nt=0)
    viol = []
    for r in engine.pmap(_FI, tasks):
        tot["n"] += r["n"]
        tot["nt"] += r["nt"]
        viol.extend(r["viol"])
    seen, uniq = set(), []
    for v in sorted(viol, key=lambda v: (len(v["input"]["seq"]), repr(v["input"]))):
        if v["sig"] not in seen:
            seen.add(v["sig"])
            v["part"] = "c09"
            uniq.append(v)
    return dict(evaluations=tot["n"], distinct_nontrivial=tot["nt"], exhaustive=True,
                traces_validated_against_impl=tot["n"],
                samples=[dict(config="rectangle, inside an episode", entry="hook", seq=["G3 X-5 Y0 I5 J0", "G1 X70 Y65 Z2"]),
                         dict(config="disc", entry="stream", seq=["G92 X1000000000000000", "G2 X10 R-5"])],
                parts=[dict(name="c09-sequences", grammar=len(full), sub_grammar=len(small), configurations=len(cfgs),
                            sequences=tot["n"], max_length=2 if ctx.quick else 3)],
                violations=uniq)


def replay_input(payload):
    if not _GRAM:
        full = grammar()
        _GRAM["full"] = full
        for c in full:
            _G[c] = H.gcode_and_subcode_for_cmd(c)
    i = payload["input"]
    for c in i["seq"]:
        _G.setdefault(c, H.gcode_and_subcode_for_cmd(c))
    return run_seq(i["config"], i["entry"], tuple(i["seq"]))
