"""C14 -- @-commands switch exclusion off and on correctly (E1, FilterWorld)."""
from ..engine import Scenario
from ..world import World, no_relative_disable
from .. import findings

NONTRIVIAL = {"move-while-disabled", "disable-mid-episode", "at-unmatched", "at-ignored-streaming", "at-enable",
              "at-disable"}
RULE = ("all histories (breadth-first) over moves into/out of the regions, single-axis moves, retract/recover, a "
        "deferred M117, G90/G91 and @-commands {disable, enable, unmatched parameters, another command, the same "
        "while streaming to SD} under the default patterns and a custom configuration (@noexclude / @exclude, no "
        "parameter pattern); the reference enabled-flag is computed from the configured patterns only; after "
        "re-enabling, the C01 and C03 obligations are checked with reference printer B's true position; "
        "non-trivial = first reached by a command processed while disabled, by a disable closing an episode, or "
        "by an unmatched/streaming @-command")
ASSUMPTIONS = ["commands sent through sendCommand are run through the queuing hook again, as MachineCom does",
               "relative positioning: only outside episodes closed by a disable (see DESIGN: re-feeding of the exit "
               "sequence in G91)"]

CUSTOM = [{"command": "noexclude", "parameterPattern": None, "action": "disable_exclusion", "description": ""},
          {"command": "exclude", "parameterPattern": None, "action": "enable_exclusion", "description": ""}]


def scenarios(tier):
    q = tier == "quick"
    moves = [("TRAVEL", "O2"), ("TRAVEL", "I1"), ("PRINT", "I2"), ("PRINT", "O1"), ("XONLY", "I1"), ("YONLY", "I1"),
             ("XONLY", "O2"), ("RETRACT",), ("RECOVER",), ("RAW", "M117 msg")]
    dflt = [("AT", "ExcludeRegion", "disable"), ("AT", "ExcludeRegion", "enable"), ("AT", "ExcludeRegion", "off now"),
            ("AT", "ExcludeRegion", "foo"), ("AT", "pause", ""), ("AT", "ExcludeRegion", "disable", True),
            ("AT", "ExcludeRegion", "enable", True)]
    cust = [("AT", "noexclude", ""), ("AT", "exclude", "anything"), ("AT", "ExcludeRegion", "disable"),
            ("AT", "noexclude", "", True)]
    base = dict(prop="C14", monitors=("c14", "c01", "c03"), regions=["R", "D"], emax=1, key_depth=False, track_keys=False)
    empty = [{"command": "PrintAll", "parameterPattern": "", "action": "disable_exclusion", "description": ""},
             {"command": "SkipRegions", "parameterPattern": "^\\s*(now)?\\s*$", "action": "enable_exclusion", "description": ""},
             {"command": "ExcludeRegion", "parameterPattern": "^\\s*(disable|off)(\\s|$)", "action": "disable_exclusion",
              "description": ""}]
    cased = [{"command": "ExcludeRegion", "parameterPattern": "^\\s*Skirt(\\s|$)", "action": "disable_exclusion", "description": ""},
             {"command": "ExcludeRegion", "parameterPattern": "^\\s*(enable|on)(\\s|$)", "action": "enable_exclusion", "description": ""}]
    return [
        Scenario("c14-unanchored", World,
                 dict(base, regions=["R"], at=[
                     {"command": "ExcludeRegion", "parameterPattern": "off", "action": "disable_exclusion", "description": ""},
                     {"command": "ExcludeRegion", "parameterPattern": "on", "action": "enable_exclusion", "description": ""}]),
                 moves[:6] + [("AT", "ExcludeRegion", "off"), ("AT", "ExcludeRegion", "on"),
                              ("AT", "ExcludeRegion", "off for the second copy"), ("AT", "ExcludeRegion", "note: not on"),
                              ("AT", "ExcludeRegion", "  off")],
                 max_states=150000 if q else 3000000,
                 note="patterns without ^: they match at the start of the parameters only (re.match)"),
        Scenario("c14-case", World, dict(base, at=cased, regions=["R"]),
                 moves[:6] + [("AT", "ExcludeRegion", "Skirt"), ("AT", "ExcludeRegion", "skirt"), ("AT", "ExcludeRegion", "ON"),
                              ("AT", "ExcludeRegion", "on"), ("AT", "excluderegion", "on")],
                 max_states=150000 if q else 3000000,
                 note="patterns and parameters are matched case-sensitively, as configured"),
        Scenario("c14-default", World, base, moves + dflt + [("SET", "save", None)], max_states=150000 if q else 3000000),
        Scenario("c14-custom", World, dict(base, at=CUSTOM, regions=["R"]), moves[:6] + cust,
                 max_states=150000 if q else 3000000),
        Scenario("c14-empty-patterns", World, dict(base, at=empty, regions=["R"]),
                 moves[:6] + [("AT", "PrintAll", ""), ("AT", "SkipRegions", ""), ("AT", "SkipRegions", "now"),
                              ("AT", "SkipRegions", "later"), ("AT", "PrintAll", "x")],
                 max_states=150000 if q else 3000000,
                 note="patterns that match the empty parameter string (blank pattern field, optional keyword)"),
        Scenario("c14-arcs", World, dict(base, regions=["R"]),
                 [("TRAVEL", "O1"), ("TRAVEL", "O2"), ("TRAVEL", "I1"), ("ARC", "clear"), ("ARC", "under"), ("ARC", "into"),
                  ("XONLY", "I1"), ("YONLY", "I1"), ("AT", "ExcludeRegion", "disable"), ("AT", "ExcludeRegion", "enable"),
                  ("TRACKPROBE",)],
                 max_states=150000 if q else 3000000, note="arcs executed while disabled must keep the position tracked"),
        Scenario("c14-two-prints", World, dict(base, regions=["R"]),
                 [("TRAVEL", "I1"), ("TRAVEL", "O2"), ("XONLY", "I1"), ("AT", "ExcludeRegion", "disable"),
                  ("AT", "ExcludeRegion", "enable"), ("EV", "PRINT_DONE"), ("NEWPRINT",)],
                 max_states=150000 if q else 3000000,
                 note="the same @-commands in consecutive prints (every print starts enabled)"),
        Scenario("c14-actions-reconfigured", World,
                 dict(base, regions=["R"], at_tables={
                     "dflt": [{"command": "ExcludeRegion", "parameterPattern": "^\\s*(enable|on)(\\s|$)",
                               "action": "enable_exclusion", "description": ""},
                              {"command": "ExcludeRegion", "parameterPattern": "^\\s*(disable|off)(\\s|$)",
                               "action": "disable_exclusion", "description": ""}],
                     "alt": [{"command": "ExcludeRegion", "parameterPattern": "^\\s*(enable|on)(\\s|$)",
                              "action": "enable_exclusion", "description": ""},
                             {"command": "ExcludeRegion", "parameterPattern": "^\\s*disable(\\s|$)",
                              "action": "disable_exclusion", "description": ""},
                             {"command": "Object", "parameterPattern": "^\\s*keep(\\s|$)",
                              "action": "disable_exclusion", "description": ""}]}),
                 [("TRAVEL", "I1"), ("TRAVEL", "O2"), ("AT", "ExcludeRegion", "off"), ("AT", "ExcludeRegion", "enable"),
                  ("AT", "Object", "keep"), ("SETAT", "alt"), ("SETAT", "dflt"), ("NEWPRINT",)],
                 max_states=150000 if q else 3000000,
                 note="the table of @-command actions is replaced through the settings between uses of the same "
                      "@-command text (also across prints)"),
        Scenario("c14-regions-later", World, dict(base, regions=[], maxregions=1, shrink=True),
                 [("TRAVEL", "O2"), ("TRAVEL", "I1"), ("XONLY", "I1"), ("ADD", "R", "r"), ("API", "del", "r", None, False),
                  ("AT", "ExcludeRegion", "disable"), ("AT", "ExcludeRegion", "enable"), ("NEWPRINT",)],
                 max_states=150000 if q else 3000000,
                 note="the print starts with no region defined; @-commands arrive before the first region is added"),
        Scenario("c14-relative", World, dict(base, regions=["R"], guard=no_relative_disable),
                 REL_MENU, max_depth=10 if q else 14, max_states=3000000,
                 note="relative moves after re-enabling; disable is not issued inside an episode while in G91 (D17)"),
        Scenario("c14-rel-disable", World, dict(base, regions=["R"]), REL_MENU, max_depth=6, max_states=3000000,
                 finding="D17", note="dedicated to known finding D17: disable inside an episode while in G91"),
    ]


REL_MENU = [("TRAVEL", "O2"), ("TRAVEL", "I1"), ("TRAVEL", "O1"), ("XONLY", "I1"), ("REL",), ("ABS",),
            ("AT", "ExcludeRegion", "disable"), ("AT", "ExcludeRegion", "enable"), ("TRACKPROBE",)]


@findings.predicate("D17")
def _is_d17(finding, payload):
    """Instance of D17 iff, in the counterexample, a disable @-command closed an episode (non-empty sendCommand
    traffic) while the file was in relative positioning mode."""
    rel = False
    for row in payload.get("trace", []):
        for hc in row.get("hook_calls", []):
            cmd = hc.get("cmd", "")
            if cmd == "G91":
                rel = True
            elif cmd == "G90":
                rel = False
            elif cmd.startswith("@") and hc.get("sendCommand") and rel:
                return True
    return False
