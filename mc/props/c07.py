"""C07 -- commands synthesised by the filter are well-formed plain-decimal G-code (E1 value stress + E2 grid)."""
import itertools

from ..engine import Scenario, Violation
from .. import engine
from ..world import World

NONTRIVIAL = {"synthesised:G92", "synthesised:G0", "synthesised:G1", "synthesised:G10", "synthesised:G11",
              "synthesised:M204", "synthesised:M205"}
RULE = ("E1: depth-bounded enumeration of value-stress histories: tiny retraction length and extrusion step "
        "(0.00002), G92 E0.00001 / G92 E<1e16>, relative nudges of 0.1/0.2/-0.3 (round-off residues), inch mode, tiny "
        "and huge feed rates, merge codes with tiny parameter values, each combined with entering/leaving the "
        "region, in-region retraction and owed recovery; every command that is not the input command, a script "
        "line or a verbatim deferred command must match the strict grammar, and the reference printers (which "
        "read numbers without exponent) must stay synchronised (C03/C04 monitors run alongside). "
        "E2: every value of a decade x mantissa grid (1e-12 .. 1e17, both signs) is pushed through each formatting "
        "site (exit G92 E / G0 F X Y Z, retraction G92 E + G1 F E, merged command) by a five-command program; "
        "non-trivial = a synthesised command of the given code was observed and checked")
ASSUMPTIONS = ["strict grammar: [GM]<digits>[.<digits>] followed by space-separated <LETTER>[-]<digits>[.<digits>] words, "
               "letters distinct; free text only where copied verbatim from the file or a configured script"]

STRESS = [("TRAVEL", "I1"), ("TRAVEL", "O2"), ("PRINT", "O1"), ("PRINT", "I2"), ("RETRACT",), ("RECOVER",),
          ("ESET", "0.00001"), ("ESET", "10000000000000000"), ("ESET0",),
          ("REL",), ("ABS",), ("NUDGE", "X", "0.1"), ("NUDGE", "X", "0.2"), ("NUDGE", "X", "-0.3"), ("NUDGE", "Y", "0.1"),
          ("INCH",), ("MM",), ("RAW", "G1 F0.00001"), ("RAW", "G1 F100000000000000000000"),
          ("RAW", "M204 S0.0000001"), ("RAW", "M204 T1000000000000000000000"), ("RAW", "M204 S0"), ("ZMOVE", 2)]


def scenarios(tier):
    q = tier == "quick"
    cfg = dict(prop="C07", monitors=("c07", "c03", "c04", "c06"), regions=["R"], retract="0.00002", estep="0.00002",
               emax="0.0001")
    return [Scenario("c07-value-stress", World, cfg, STRESS, max_depth=5 if q else 7, max_states=3000000,
                     note="values drift (relative + inch rounding, tiny accumulation): depth-bounded by design")]


# ------------------------------------------------------------------------------------------------ E2
MANT = ["1", "1.5", "2.5", "9.999", "1.2345678", "3"]


def values():
    out = ["0", "0.0", "000"]
    for exp in range(-12, 18):
        for m in MANT:
            digits = m.replace(".", "")
            point = len(m.split(".")[0]) + exp          # position of the decimal point in digits
            if point <= 0:
                txt = "0." + "0" * (-point) + digits
            elif point >= len(digits):
                txt = digits + "0" * (point - len(digits))
            else:
                txt = digits[:point] + "." + digits[point:]
            out.append(txt)
    return out


_BASE = {}
CFG2 = dict(prop="C07", monitors=("c07", "c03", "c06"), regions=["R"], key_depth=False)


def base():
    import os
    if os.getpid() not in _BASE:
        _BASE[os.getpid()] = World(CFG2).snapshot()
    return _BASE[os.getpid()]


def program(v, neg):
    s = ("-" if neg else "") + v
    return [("RAW", "G1 F" + v), ("RAW", "G92 E" + s), ("TRAVEL", "I1"), ("RAW", "M204 S" + s + " T" + v),
            ("RAW", "M205 X" + s), ("RAW", "G1 E" + ("-" if not neg else "") + v) if False else ("RAW", "G92 E" + s),
            ("TRAVEL", "O2")]


def check_value(v, neg):
    w = World.restore(base(), CFG2)
    synth = 0
    try:
        for ev in program(v, neg):
            st = w.step(ev)
            synth += sum(1 for t in st.tags if t.startswith("synthesised"))
    except Violation as e:
        return synth, e.msg
    from fractions import Fraction as Fr
    if abs(w.A.E - w.B.E) > Fr(1, 10 ** 6) * max(1, abs(w.B.E)):
        return synth, "C07 after the program for value %s the printer's E is %s, the file's %s" % (v, float(w.A.E), float(w.B.E))
    return synth, None


def _work(arg):
    out = dict(n=0, synth=0, viol=[])
    for v, neg in arg:
        out["n"] += 1
        synth, msg = check_value(v, neg)
        out["synth"] += synth
        if msg and len(out["viol"]) < 3:
            out["viol"].append(dict(msg=msg, sig=" ".join(msg.split()[:3]), input=dict(value=v, negative=neg)))
    return out


def prepare(ctx):
    global _FI
    _FI = engine.register_enum(_work)


def enumerate_inputs(ctx):
    vals = [(v, neg) for v in values() for neg in (False, True)]
    chunks = [vals[i:i + 12] for i in range(0, len(vals), 12)]
    tot = dict(n=0, synth=0)
    viol = []
    for r in engine.pmap(_FI, chunks):
        tot["n"] += r["n"]
        tot["synth"] += r["synth"]
        viol.extend(r["viol"])
    seen, uniq = set(), []
    for v in sorted(viol, key=lambda v: repr(v["input"])):
        if v["sig"] not in seen:
            seen.add(v["sig"])
            v["part"] = "c07-grid"
            uniq.append(v)
    return dict(evaluations=tot["n"], distinct_nontrivial=tot["n"], exhaustive=True,
                traces_validated_against_impl=tot["n"],
                samples=[dict(program=[list(e) for e in program("0.000012345678", True)])],
                parts=[dict(name="c07-grid", values=tot["n"], synthesised_commands_checked=tot["synth"])],
                violations=uniq)


def replay_input(payload):
    i = payload["input"]
    return check_value(i["value"], i["negative"])[1]
