"""C11 -- filtering is gated by the print lifecycle (E1, PluginWorld, fix-point)."""
from ..engine import Scenario
from ..world import World

NONTRIVIAL = {"hook-while-inactive", "event:PRINT_DONE", "event:PRINT_FAILED", "event:PRINT_CANCELLING",
              "event:PRINT_CANCELLED", "event:ERROR", "event:PRINT_PAUSED", "event:PRINT_RESUMED",
              "event:FILE_SELECTED", "event:PRINT_STARTED"}
RULE = ("all interleavings (breadth-first, to fix-point) of the OctoPrint lifecycle events, FileSelected, an "
        "unrelated event, settings updates, the three hooks (a move into the region, a move out, @ExcludeRegion "
        "disable/enable, afterPrintDone and another script) and an API add, on the real plugin; "
        "non-trivial = the state was first reached by a hook call while no print is active or by a lifecycle event")
ASSUMPTIONS = ["whole hook/event/API calls interleave; preemption inside a call is not modelled",
               "moves are issued only after G28 once a print is active (before it the tracker position is unknown)"]

EVENTS = ["PRINT_STARTED", "PRINT_DONE", "PRINT_FAILED", "PRINT_CANCELLING", "PRINT_CANCELLED", "ERROR",
          "PRINT_PAUSED", "PRINT_RESUMED", "FILE_SELECTED", "CONNECTED"]


def guard(w, ev):
    # raw moves only when the tracker knows the position, or when no print is active
    if ev[0] in ("GCODE", "GCODET") and ev[1].startswith("G1"):
        return (not w.m_active) or w.m_homed
    return True


def scenarios(tier):
    menu = [("EV", n) for n in EVENTS] + [
        ("SET", "clearRegionsAfterPrintFinishes", True), ("SET", "clearRegionsAfterPrintFinishes", False),
        ("GCODE", "G28"), ("GCODE", "G1 X50 Y40 Z1"), ("GCODET", "G1 X50 Y40 Z1"), ("GCODE", "G1 X10 Y10 E1"),
        ("AT", "ExcludeRegion", "disable"),
        ("SCRIPT", "gcode", "afterPrintDone"), ("SCRIPT", "gcode", "beforePrintStarted"),
        ("ADD", "R", "a")]
    cfg = dict(prop="C11", monitors=("c11",), start=False, maxregions=1, guard=guard, at_toggle_only=False,
               track_keys=True, key_depth=False)
    return [Scenario("c11-lifecycle", World, cfg, menu, max_states=400000)]
