"""C10 -- every print starts from a clean tracking state (E1, PluginWorld, differential oracle)."""
from ..engine import Scenario
from ..world import World

NONTRIVIAL = ()
RULE = ("every state reachable by histories over the union menu (moves in/out of the region, retract/recover, "
        "deferred codes, disable, inch/relative, cancel/done, API add/update) up to the depth bound is followed by "
        "print-started on a copy and compared with a freshly initialised plugin given the same regions and "
        "settings and then print-started: for every distinct (used state, fresh state) pair all probe programs of "
        "<= 2 (3 thorough) commands over 12 probe commands, followed by the afterPrintDone hook, must give identical "
        "hook outputs; if the canonical states differ the probes go one level deeper (a state difference alone is "
        "not a violation: the property is behavioural); non-trivial = states in which the comparison was made (all of them); "
        "distinct = canonical states")
ASSUMPTIONS = ["'same regions and settings' = the region list (ids, order, geometry) and the settings values at that moment",
               "probe programs start with G28 (after print-started the tracked position is unknown until homing)"]


def scenarios(tier):
    q = tier == "quick"
    menu = [("C10CHECK",),
            ("TRAVEL", "I1"), ("TRAVEL", "O2"), ("PRINT", "I2"), ("WIPE", "I1"), ("RETRACT",), ("RECOVER",), ("RAW", "M117 x"),
            ("RAW", "M204 S5"), ("AT", "ExcludeRegion", "disable"), ("INCH",), ("REL",), ("ZMOVE", 2),
            ("FWRETRACT",), ("RAW", "G1 F600"), ("RAW", "M206 X15"), ("RAW", "G92 X20 Y5"),
            ("EV", "PRINT_CANCELLED"), ("EV", "PRINT_DONE"), ("NEWPRINT",),
            ("API", "add", "b", "cIn", False), ("API", "upd", "r", "rBig", False),
            ("SET", "clearRegionsAfterPrintFinishes", True), ("SET", "clearRegionsAfterPrintFinishes", False),
            ("SETEXT", (("M204", "merge"),)), ("SETEXT", (("G4", "exclude"), ("M117", "last"), ("M204", "merge")))]
    cfg = dict(prop="C10", monitors=(), regions=["R"], emax=1, key_depth=False, maxregions=2,
               probe_depth=2 if q else 3, exit="M400\n", enter="M300 S1\n")
    small = [m for m in menu if m[0] in ("C10CHECK", "TRAVEL", "RETRACT", "RECOVER", "AT", "INCH", "REL", "EV") or m in (("RAW", "M117 x"), ("RAW", "M206 X15"))]
    return [Scenario("c10-restart", World, cfg, menu, max_depth=5 if q else 7, max_states=40000 if q else 1500000),
            Scenario("c10-restart-sd", World, dict(cfg, c10_payload={"origin": "sdcard", "name": "f.gco", "path": "f.gco"}),
                     small, max_depth=5 if q else 7, max_states=40000 if q else 1500000,
                     note="the next print is started from the printer's SD card (event payload origin=sdcard)")]
