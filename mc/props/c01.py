"""C01 -- no motion into, no extrusion inside an excluded region (E1, FilterWorld)."""
from ..engine import Scenario
from ..world import World

NONTRIVIAL = {"in-episode", "episode-opened", "episode-closed"}
RULE = ("breadth-first enumeration of all event histories over the scenario menu (moves to named points "
        "inside/outside/on the border of the regions, retract/recover, wipes, arcs, @-commands, late region "
        "additions), executed on the real plugin through its gcode/atcommand queuing hooks; a state is "
        "non-trivial when the transition that first reached it happened inside an exclusion episode or "
        "opened/closed one; distinct = distinct canonical states")
ASSUMPTIONS = [
    "episode boundaries and region membership are decided by the reference printer B in exact arithmetic",
    "G28 only in the homing preamble; script-hook output is C15's observation point, not C01's",
    "arcs are issued in absolute mm mode only (the property's dialect); arc/region contact is decided by "
    "0.05 mm sampling of the true arc, and menu arcs are either >= 2 mm clear or cross a region deeply",
]

BASE = [("TRAVEL", "O2"), ("TRAVEL", "I1"), ("TRAVEL", "I2"), ("TRAVEL", "O1"), ("PRINT", "O2"), ("PRINT", "I1"),
        ("PRINT", "O1"), ("TRAVEL", "Bd"), ("TRAVEL", "Br"), ("TRAVEL", "N"),
        ("RETRACT",), ("RECOVER",), ("WIPE", "I2"), ("WIPE", "O2"), ("ESET0",),
        ("ZMOVE", 2), ("ZMOVE", 1), ("TRAVELZ", "I1", 2), ("XONLY", "I1"), ("YONLY", "I1"), ("XONLY", "O2"),
        ("RAW", "M117 hi"), ("RAW", "M999"),
        ("AT", "ExcludeRegion", "disable"), ("AT", "ExcludeRegion", "enable")]
ARCS = [("ARC", "clear"), ("ARC", "cross"), ("ARC", "under"), ("ARC", "into")]


def scenarios(tier):
    q = tier == "quick"
    mon = ("c01",)
    out = []
    out.append(Scenario("c01-abs-R", World, dict(prop="C01", monitors=mon, regions=["R"], emax=1),
                        BASE + ARCS + [("ADD", "R2", "r2")], max_states=60000 if q else 600000))
    out.append(Scenario("c01-abs-RD-script", World,
                        dict(prop="C01", monitors=mon, regions=["Rrev", "D"], emax=1, enter="M117 in\n"),
                        [e for e in BASE if e[0] not in ("ZMOVE", "TRAVELZ", "ESET0")] + ARCS[1:]
                        + [("ADD", "R2", "r2"), ("ADD", "R3", "r3"), ("TRAVEL", "O3")],
                        max_states=60000 if q else 600000))
    out.append(Scenario("c01-modes", World, dict(prop="C01", monitors=mon, regions=["R"], emax=1),
                        [("TRAVEL", "O2"), ("TRAVEL", "I1"), ("TRAVEL", "O1"), ("PRINT", "I2"), ("PRINT", "O2"),
                         ("TRAVEL", "H"), ("RETRACT",), ("RECOVER",), ("REL",), ("ABS",), ("INCH",), ("MM",),
                         ("ZMOVE", 2), ("XONLY", "I1")],
                        max_depth=6 if q else 8, max_states=2000000))
    return out
