"""C01 -- no motion into, no extrusion inside an excluded region (E1, FilterWorld)."""
from ..engine import Scenario
from ..world import World
from .. import findings

NONTRIVIAL = {"in-episode", "episode-opened", "episode-closed"}
RULE = ("breadth-first enumeration of all event histories over the scenario menu (moves to named points "
        "inside/outside/on the border of the regions, retract/recover, wipes, arcs, @-commands, late region "
        "additions), executed on the real plugin through its gcode/atcommand queuing hooks; a state is "
        "non-trivial when the transition that first reached it happened inside an exclusion episode or "
        "opened/closed one; distinct = distinct canonical states")
ASSUMPTIONS = [
    "episode boundaries and region membership are decided by the reference printer B in exact arithmetic",
    "G28 only in the homing preamble; script-hook output is C15's observation point, not C01's",
    "arcs are issued in absolute mm mode only (the property's dialect); arc/region contact is decided by "
    "0.05 mm sampling of the true arc, and menu arcs are either >= 2 mm clear or cross a region deeply",
]

AT = [("AT", "ExcludeRegion", "disable"), ("AT", "ExcludeRegion", "enable")]
POINTS_RETRACT = [("TRAVEL", "O1"), ("TRAVEL", "O2"), ("TRAVEL", "I1"), ("TRAVEL", "I2"), ("TRAVEL", "Bd"),
                  ("TRAVEL", "Br"), ("TRAVEL", "N"), ("TRAVEL", "Org"), ("XONLY", "I1"), ("PRINT", "I1"), ("PRINT", "O2"), ("PRINT", "O1"),
                  ("RETRACT",), ("RECOVER",), ("WIPE", "I2"), ("WIPE", "O2"), ("ESET0",), ("SET", "save", None)]
AT_AXIS = [("TRAVEL", "O2"), ("TRAVEL", "I1"), ("XONLY", "I1"), ("YONLY", "I1"), ("XONLY", "O2"), ("PRINT", "I2"),
           ("ZMOVE", 2), ("ZMOVE", 1), ("RETRACT",), ("RECOVER",), ("TRACKPROBE",)] + AT
ARC_ADD = [("TRAVEL", "O1"), ("TRAVEL", "O2"), ("TRAVEL", "O3"), ("TRAVEL", "I1"), ("PRINT", "I2"), ("PRINT", "O2"),
           ("ARC", "clear"), ("ARC", "cross"), ("ARC", "under"), ("ARC", "into"), ("ARC", "into", "EZ"),
           ("ARC", "under", "E"), ("CIRCLE", 5, 0), ("TRAVEL", "N"), ("ADD", "R2", "r2"),
           ("ADD", "R3", "r3"), ("ZMOVE", 2), ("ZMOVE", 1), ("RAW", "M117 hi"), ("RAW", "M999")]
MODES = [("TRAVEL", "O2"), ("TRAVEL", "I1"), ("TRAVEL", "O1"), ("PRINT", "I2"), ("PRINT", "O2"), ("TRAVEL", "H"),
         ("RETRACT",), ("RECOVER",), ("REL",), ("ABS",), ("INCH",), ("MM",), ("ZMOVE", 2), ("XONLY", "I1"),
         ("TRACKPROBE",)]


def scenarios(tier):
    q = tier == "quick"
    base = dict(prop="C01", monitors=("c01",), key_depth=False, emax=1 if q else 2, probe_kinds=("true",))
    cap = 120000 if q else 3000000
    out = [
        Scenario("c01-points-retract", World, dict(base, regions=["R"]),
                 [e for e in POINTS_RETRACT if not q or e not in (("TRAVEL", "Bd"), ("PRINT", "O1"))], max_states=cap,
                 note="closed borders (Bd on the disc border is unused here; Br on the rectangle border), "
                      "retract/recover/wipe inside and outside"),
        Scenario("c01-at-axis", World, dict(base, regions=["R", "D"]),
                 AT_AXIS + ([] if q else [("TRAVELZ", "I1", 2), ("PRINT", "O1"), ("TRAVEL", "Bd")]), max_states=cap,
                 note="disable/enable at arbitrary points, single-axis and Z-only moves; two overlapping regions"),
        Scenario("c01-arc-add", World, dict(base, regions=["Rrev", "D"], enter="M117 in\n", exit="M400\n"), ARC_ADD,
                 max_states=cap, note="arcs clear of / crossing / ending in a region, regions added while printing "
                                      "(up to four at once), reversed rectangle corners, enter script"),
        Scenario("c01-region-update", World, dict(base, regions=["R"]),
                 [("TRAVEL", "N"), ("TRAVEL", "Q"), ("TRAVEL", "O2"), ("TRAVEL", "I1"), ("PRINT", "H"), ("ZMOVE", 2),
                  ("XONLY", "I1"), ("API", "upd", "r", "rBig", False), ("API", "upd", "r", "cBig", False)],
                 max_states=cap, note="a region is enlarged (update accepted while printing) after points that it now "
                                      "covers have been visited"),
        Scenario("c01-negative", World, dict(base, regions=["Rneg", "R"]),
                 [("TRAVEL", "Ng"), ("TRAVEL", "Ngo"), ("TRAVEL", "O1"), ("PRINT", "Ng"), ("PRINT", "Ngo"), ("TRAVEL", "I1"),
                  ("XONLY", "Ng"), ("YONLY", "Ngo"), ("REL",), ("ABS",), ("TRAVEL", "Eps"), ("TRACKPROBE",)],
                 max_depth=5 if q else 8, max_states=cap,
                 note="negative coordinates (a region there, and relative moves after them); a point 4 "
                                      "micrometres outside the border"),
        Scenario("c01-modes", World, dict(base, regions=["R"], emax=1), MODES, max_depth=5 if q else 8,
                 max_states=cap, note="relative positioning and inch units: depth-bounded (rounding makes states "
                                      "path-dependent)"),
    ]
    out.append(Scenario("c01-arc-retracted", World, dict(base, regions=["R"], emax=1),
                        [("TRAVEL", "O1"), ("TRAVEL", "O2"), ("TRAVEL", "I1"), ("PRINT", "O1"), ("ARC", "cross"), ("ARC", "under"),
                         ("ARC", "cross", "E"), ("ARC", "into"), ("RETRACT",), ("RECOVER",)],
                        max_states=cap, note="arcs issued while the filament is retracted, or while a recovery skipped "
                                             "inside a region is still owed"))
    out.append(Scenario("c01-relarc", World, dict(base, regions=["R"], relarcs=True, monitors=("c01", "c03")),
                        [("REL",), ("ABS",), ("ARC", "clear"), ("ARC", "under"), ("TRAVEL", "O1"), ("TRAVEL", "I1"),
                         ("TRAVEL", "O2"), ("XONLY", "I1")], max_depth=5, max_states=cap, finding="D14",
                        note="dedicated to known finding D14: G2/G3 while in relative positioning (G91)"))
    return out


@findings.predicate("D14")
def _is_d14(finding, payload):
    """Instance of D14 iff the counterexample contains an arc command issued while the file is in G91."""
    rel = False
    for row in payload.get("trace", []):
        for hc in row.get("hook_calls", []):
            c = hc.get("cmd", "")
            if c == "G91":
                rel = True
            elif c == "G90":
                rel = False
            elif c.split(" ")[0] in ("G2", "G3") and rel:
                return True
    d = payload.get("trace", [{}])[-1].get("detail") or {}
    return rel and str(d.get("cmd", "")).split(" ")[0] in ("G2", "G3")
