"""C02 -- transparency: a print that never touches an enabled region is forwarded verbatim (E1)."""
from ..engine import Scenario
from ..world import World, stays_clear
from . import c08 as _c08   # registers the D16 predicate

NONTRIVIAL = {"verbatim:G0", "verbatim:G1", "verbatim:G2", "verbatim:G3", "verbatim:G10", "verbatim:G11",
              "verbatim:G92", "verbatim:G20", "verbatim:G21", "verbatim:G90", "verbatim:G91", "verbatim:G4",
              "verbatim:M106", "verbatim:M117", "verbatim:M204", "verbatim:M999"}
RULE = ("all histories over the full menu (moves, clear arcs, E-only and firmware retract/recover, wipes, G92 E0, "
        "G90/G91, G20/G21, every configured extended-code mode, an unknown code, feed-only and valueless moves, "
        "a lower-case spelling) under three premises: no regions; regions present but every destination outside; "
        "regions present and exclusion disabled by the first command; both values of g90InfluencesExtruder; "
        "non-trivial = a command of the property's dialect was observed being forwarded verbatim; "
        "distinct = canonical states")
ASSUMPTIONS = ["TRACKPROBE events build, on a copy of the world, the program 'add a 0.45 mm disc where the filter believes the "
               "tool to be (only if that is > 1 mm from the true position), then move in Z only' and judge it "
               "behaviourally; the tracked position is only the hint where to put the disc",
               "premise for arcs strengthened to '>= 2 mm clear of every region' because sampled points decide",
               "G92 X/Y/Z is explored in the dedicated c02-g92 scenario (known finding D16)"]

COMMON = [("RETRACT",), ("RECOVER",), ("FWRETRACT",), ("FWRECOVER",), ("ESET0",), ("ZMOVE", 2), ("ZMOVE", 1),
          ("RAW", "G4 P100"), ("RAW", "M106 S255"), ("RAW", "M117 hello"), ("RAW", "M204 S500"), ("RAW", "M999"),
          ("RAW", "G1 F1500"), ("RAW", "G1 X"), ("RAW", "G1 x70 y65"), ("RAW", "G10 P1 S200")]
MODES = [("REL",), ("ABS",), ("INCH",), ("MM",)]
OUT = [("TRAVEL", "O1"), ("TRAVEL", "O2"), ("PRINT", "O3"), ("PRINT", "O1"), ("WIPE", "O2"), ("TRAVEL", "N"),
       ("ARC", "clear"), ("ARC", "under")]
AXIS = [("TRAVEL", "Org"), ("XONLY", "I1"), ("YONLY", "I1"), ("XONLY", "O2"),
        ("AT", "ExcludeRegion", "disable"), ("AT", "ExcludeRegion", "enable")]
IN = [("TRAVEL", "I1"), ("PRINT", "I2"), ("TRAVEL", "Bd"), ("ARC", "cross"), ("ARC", "into")]


def only_first_disable(w, ev):
    # premise 3: exclusion is disabled by the first event and stays disabled; moves only afterwards
    if ev[0] == "AT":
        return w.m_enabled
    return not w.m_enabled


def scenarios(tier):
    q = tier == "quick"
    out = []
    for g90e in (False, True):
        tag = "-g90e" if g90e else ""
        base = dict(prop="C02", monitors=("c02",), g90e=g90e, emax=1, probe_kinds=("believed",))
        out.append(Scenario("c02-noregions" + tag, World, dict(base, regions=[]), OUT + IN + COMMON,
                            max_states=60000 if q else 2000000))
        out.append(Scenario("c02-clear" + tag, World, dict(base, regions=["R", "D"]), OUT + COMMON,
                            max_states=60000 if q else 2000000))
        out.append(Scenario("c02-clear-axis" + tag, World, dict(base, regions=["R"], guard=stays_clear, key_depth=False, clear_margin=0.001),
                            [("TRAVEL", "O1"), ("TRAVEL", "O2"), ("PRINT", "O3"), ("TRAVEL", "N"), ("PRINT", "Eps"), ("TRAVEL", "Ngo"),
                             ("RETRACT",),
                             ("RECOVER",), ("TRACKPROBE",)] + AXIS,
                            max_states=60000 if q else 2000000,
                            note="single-axis moves, the bed origin (coordinates exactly 0) and disable/enable, every "
                                 "destination kept outside the region by the scenario guard"))
        out.append(Scenario("c02-disabled" + tag, World, dict(base, regions=["R", "D"], guard=only_first_disable),
                            [("AT", "ExcludeRegion", "disable")] + OUT[:3] + IN + COMMON[:7] + COMMON[8:11],
                            max_states=60000 if q else 2000000))
        out.append(Scenario("c02-modes" + tag, World, dict(base, regions=["R"]),
                            [("TRAVEL", "O1"), ("TRAVEL", "O2"), ("PRINT", "O3"), ("TRAVEL", "H"), ("RETRACT",),
                             ("RECOVER",), ("ZMOVE", 2), ("RAW", "M117 hello"), ("EV", "PRINT_CANCELLED"),
                             ("NEWPRINT",), ("TRAVEL", "Q"), ("TRACKPROBE",)] + MODES,
                            max_depth=5 if q else 7, max_states=3000000,
                            note="units/positioning modes, and a second print after a print left in some mode"))
    out.append(Scenario("c02-g92", World, dict(prop="C02", monitors=("c02",), regions=["R"], emax=1, guard=stays_clear),
                        [("TRAVEL", "O1"), ("TRAVEL", "O2"), ("PRINT", "O3"), ("TRAVEL", "N"), ("G92XYZ", 16, -8, 3)],
                        max_depth=4, finding="D16",
                        note="dedicated to known finding D16: after a G92 X/Y/Z re-basing moves that never touch the "
                             "region are suppressed"))
    return out
