"""C19 -- parameter extraction matches the RS274/Marlin reading (E2 + one-step E1 through the hook)."""
import itertools
from fractions import Fraction as Fr

from .. import engine
from .. import harness as H
from ..ref.rs274 import read, last_values
from ..ref.printer import Printer

LETTERS = ["X", "y", "E", "F", "Z", "i", "W"]
NUMS = ["", "5", "-5", "+5", "5.", ".5", "-.5", "05.50", "0"]
SEPS = ["", " ", "\t"]
WORDS = [(l, s1, v) for l in LETTERS for s1 in SEPS[:2] for v in NUMS if not (v == "" and s1 == " ")]
RULE = ("every sequence of up to N words over the letters {X y E F Z i W} x number spellings {none, 5, -5, +5, 5., .5, "
        "-.5, 05.50, 0} x {no space, space} between letter and number and between words (repeated letters "
        "included); the parser's letter/value pairs are compared with an independent character-level reading, and "
        "G1 / G92 / G28 / G2 commands with those words are run through the real gcode.queuing hook of a homed "
        "plugin whose tracked position must then equal reference printer B's (last valued occurrence wins); "
        "non-trivial = texts with a repeated letter, a valueless flag or a leading/trailing-dot spelling")
ASSUMPTIONS = ["numbers without exponent (the property's quantifier)",
               "the parser's extra ('', rest-of-line) entry is not a letter word and is ignored",
               "'X5X' means X=5: the last *valued* occurrence, as the property says 'the last value given'",
               "G92 X/Y/Z: the value acted on is read back from the size of the origin shift (sign-agnostic, the shift "
               "arithmetic is C08's subject, finding D16); a letter valued twice is checked on G1/G28/G2 and on E only"]

_BASE = {}


def base_world():
    import os
    from ..world import World
    if os.getpid() not in _BASE:
        w = World(dict(prop="C19", monitors=(), regions=[], key_depth=False,
                       preamble=("G28", "G1 X10 Y10 Z1 E1 F3000")))
        _BASE[os.getpid()] = w.snapshot()
    return _BASE[os.getpid()]


def text_of(combo, sep):
    return sep.join(l + s1 + v for l, s1, v in combo)


def expected(combo):
    out = []
    for l, s1, v in combo:
        if v == "":
            out.append((l.upper(), None))
        else:
            t = v
            if t.lstrip("+-").startswith("."):
                t = t.replace(".", "0.", 1)
            if t.endswith("."):
                t += "0"
            out.append((l.upper(), Fr(t)))
    return out


def check(combo, sep, codes=("G1", "G92", "G28", "G2")):
    H.reset_pkg_state()      # every input starts from the package's import-time module state
    from ..world import World
    text = text_of(combo, sep)
    exp = expected(combo)
    p = H.GcodeParser()
    try:
        got = [(a, (None if b is None else Fr(repr(b)))) for a, b in p.parse("G1 " + text).parameterItems() if a != ""]
    except Exception as e:   # noqa
        return "C19 parser raised %s on %r" % (type(e).__name__, "G1 " + text)
    ref = read("G1 " + text)[2]
    if ref != exp:
        raise engine.HarnessError("reference reader disagrees with the construction for %r: %r vs %r" % (text, ref, exp))
    if got != exp:
        return "C19 parser reads %r as %r, the reference reading is %r" % ("G1 " + text, got, exp)
    cfg = dict(prop="C19", monitors=(), regions=[], key_depth=False)
    for code in codes:
        cmd = code + " " + text
        if code == "G2":
            cmd = "G2 I5 J0 " + text
        w = World.restore(base_world(), cfg)
        try:
            w.step(("RAW", cmd))
        except engine.Violation as v:
            return "C19 %r: %s" % (cmd, v.msg)
        pos = w.plugin.state.position
        B = w.B
        for ax, a in (("X", pos.X_AXIS), ("Y", pos.Y_AXIS), ("Z", pos.Z_AXIS)):
            if a.current is None or abs(Fr(a.current) - B.p[ax]) > Fr(1, 10 ** 9):
                return ("C19 after %r the tracked %s is %r, the reference printer (last value given per letter) is at %s"
                        % (cmd, ax, a.current, float(B.p[ax])))
        if abs(Fr(pos.E_AXIS.current) - B.E) > Fr(1, 10 ** 9):
            return "C19 after %r the tracked E is %r, the reference printer has E=%s" % (cmd, pos.E_AXIS.current, float(B.E))
        if code == "G92":
            # which value did the handler act on?  Read it back from the size of the coordinate shift, so the
            # verdict does not depend on the arithmetic of the shift itself (that is C08's subject, finding D16)
            valued = [l.upper() for l, _, v in combo if v != ""]
            for ax, a in (("X", pos.X_AXIS), ("Y", pos.Y_AXIS), ("Z", pos.Z_AXIS)):
                if valued.count(ax) > 1:
                    continue      # sequential application is idempotent only with the correct shift formula (D16)
                want = abs(B.shift[ax])
                if abs(abs(Fr(a.offset)) - want) > Fr(1, 10 ** 9):
                    return ("C19 after %r the tracked %s origin shifted by %r, the last value given implies a shift "
                            "of %s" % (cmd, ax, a.offset, float(want)))
    return None


def interesting(combo):
    letters = [l.upper() for l, _, _ in combo]
    return len(set(letters)) < len(letters) or any(v in ("", "5.", ".5", "-.5") for _, _, v in combo)


def _work(arg):
    k, first, full = arg
    out = dict(n=0, nt=0, viol=[])
    sigs = set()
    for rest in itertools.product(range(len(WORDS)), repeat=k - 1):
        combo = (WORDS[first],) + tuple(WORDS[i] for i in rest)
        for sep in SEPS:
            out["n"] += 1
            if interesting(combo):
                out["nt"] += 1
            msg = check(combo, sep, ("G1", "G92", "G28", "G2") if (full or k <= 2) else ("G1",))
            if msg:
                sig = " ".join(msg.split()[:3])
                if sig not in sigs and len(out["viol"]) < 3:
                    sigs.add(sig)
                    out["viol"].append(dict(msg=msg, input=dict(combo=[list(c) for c in combo], sep=sep), sig=sig))
    return out


def prepare(ctx):
    global _FI
    _FI = engine.register_enum(_work)


def enumerate_inputs(ctx):
    W = 2 if ctx.quick else 3
    tasks = [(k, first, not ctx.quick) for k in range(1, W + 1) for first in range(len(WORDS))]
    if not ctx.quick:
        pass
    tot = dict(n=0, nt=0)
    viol = []
    for r in engine.pmap(_FI, tasks):
        tot["n"] += r["n"]
        tot["nt"] += r["nt"]
        viol.extend(r["viol"])
    seen, uniq = set(), []
    for v in sorted(viol, key=lambda v: (len(v["input"]["combo"]), repr(v["input"]))):
        if v["sig"] not in seen:
            seen.add(v["sig"])
            v["part"] = "c19"
            uniq.append(v)
    return dict(evaluations=tot["n"], distinct_nontrivial=tot["nt"], exhaustive=True,
                traces_validated_against_impl=tot["n"],
                samples=[dict(text="G1 X5X y-.5"), dict(text="G92 E+5 E 05.50"), dict(text="G1 Z5.F.5")],
                parts=[dict(name="c19-words", max_words=W, word_forms=len(WORDS), texts=tot["n"],
                            codes_through_hook="G1,G92,G28,G2")],
                violations=uniq)


def replay_input(payload):
    i = payload["input"]
    return check(tuple(tuple(c) for c in i["combo"]), i["sep"])
