"""C17 -- region geometry is sound (E2: complete grid of rectangles x discs x points / ordered pairs)."""
import math
from fractions import Fraction as Fr

from .. import engine
from .. import harness as H
from ..ref import geometry as G

RULE = ("every rectangle with corners in {-1,0,1/2,1,2}^4 (all corner orders, degenerate ones) and every disc of "
        "the catalogue (centres {0,1/2,1}^2, radii incl. 0, negative, Pythagorean touches and nextafter "
        "neighbours of sqrt(2)) is tested against every point of a 1/4 lattice (containsPoint vs exact closed "
        "membership) and against every other region in both roles (containsRegion => exact containment and "
        "implementation membership of the inner region's extreme/boundary samples); non-trivial = points on a "
        "border or within 1e-9 of it, and pairs reported as contained; distinct inputs are distinct by construction")
ASSUMPTIONS = ["float parameters are taken at their exact rational value; a verdict that differs from the exact one "
               "only because a distance is within 1e-12 (relative) of the radius is not reported"]

V = [-1, 0, 0.5, 1, 2]


def regions(quick):
    rects = [(a, b, c, d) for a in V for b in V for c in V for d in V]
    rects += [(-3, -4, 3, 4), (0, 0, 3, 4), (-1, -1, 1, 1), (0.25, 0.25, 0.75, 0.75)]
    s2 = math.sqrt(2)
    discs = [(cx, cy, r) for cx in (0, 0.5, 1) for cy in (0, 0.5, 1) for r in (0, 0.5, 1, 1.5, 2.5, 5, -1)]
    discs += [(0, 0, 5), (0, 0, math.nextafter(5, 0)), (0, 0, math.nextafter(5, 9)), (3, 4, 0), (0, 0, s2),
              (0, 0, math.nextafter(s2, 0)), (1, 1, s2), (1, 1, math.nextafter(s2, 9)), (3, 0, 2), (3, 0.25, 2),
              (0.5, 0.5, s2 / 2), (0.5, 0.5, math.nextafter(s2 / 2, 0)), (0.5, 0.5, math.nextafter(s2 / 2, 9))]
    if quick:
        rects = [r for i, r in enumerate(rects) if i % 2 == 0 or i >= 625]
    out = [("R", r, dict(type="RectangularRegion", x1=r[0], y1=r[1], x2=r[2], y2=r[3])) for r in rects]
    out += [("D", d, dict(type="CircularRegion", cx=d[0], cy=d[1], r=d[2])) for d in discs]
    return out


POINTS = [(Fr(x, 4), Fr(y, 4)) for x in range(-8, 13) for y in range(-8, 13)] + \
         [(Fr(3), Fr(4)), (Fr(-3), Fr(4)), (Fr(5), Fr(0)), (Fr(0), Fr(-5)), (Fr(7, 5), Fr(24, 5))]


def build(g):
    if g["type"] == "RectangularRegion":
        return H.RectangularRegion(id="x", **{k: v for k, v in g.items() if k != "type"})
    return H.CircularRegion(id="x", **{k: v for k, v in g.items() if k != "type"})


def near_border(g, x, y):
    if g["type"] == "CircularRegion":
        d = math.hypot(float(x) - g["cx"], float(y) - g["cy"])
        return abs(d - g["r"]) <= 1e-12 * max(1.0, abs(g["r"]))
    return False


def check_region(g):
    """All checks with g as the subject: points, corner orders.  Returns (n, nontrivial, [violations])."""
    H.reset_pkg_state()      # every input starts from the package's import-time module state
    obj = build(g)
    n = nt = 0
    viol = []
    for (x, y) in POINTS:
        n += 1
        exp = G.contains_point(g, x, y)
        got = bool(obj.containsPoint(float(x), float(y)))
        on_border = False
        if g["type"] == "RectangularRegion":
            x1, y1, x2, y2 = G.norm_rect(g)
            on_border = exp and (x in (x1, x2) or y in (y1, y2))
        else:
            on_border = near_border(g, x, y)
        if on_border:
            nt += 1
        if got != exp and not (g["type"] == "CircularRegion" and near_border(g, x, y) and
                               G.F(g["r"]) ** 2 != (x - G.F(g["cx"])) ** 2 + (y - G.F(g["cy"])) ** 2):
            viol.append(dict(msg="C17 containsPoint(%s, %s) of %r is %r, exact closed membership is %r"
                                 % (float(x), float(y), g, got, exp),
                             input=dict(kind="point", region=g, x=float(x), y=float(y)), sig="containsPoint " + g["type"]))
            break
    if g["type"] == "RectangularRegion" and all(float(g[k]) == int(g[k]) for k in ("x1", "y1", "x2", "y2")):
        # the same rectangle with its numbers given as strings of different lengths (the API passes them to float());
        # scaled by 10 and shifted so that e.g. "5" and "40" occur together
        sg = {k: str(int(g[k]) * 35 + 5) for k in ("x1", "y1", "x2", "y2")}
        ng = {k: int(g[k]) * 35 + 5 for k in ("x1", "y1", "x2", "y2")}
        try:
            a_, b_ = build(dict(sg, type=g["type"])), build(dict(ng, type=g["type"]))
            n += 1
            if not (a_ == b_):
                viol.append(dict(msg="C17 rectangle given with string-typed numbers %r differs from the same rectangle "
                                     "given with numbers %r: %r vs %r" % (sg, ng, a_, b_),
                                 input=dict(kind="strings", region=g), sig="string-typed numbers"))
        except Exception as e:   # noqa
            viol.append(dict(msg="C17 rectangle given with string-typed numbers %r raised %s" % (sg, e),
                             input=dict(kind="strings", region=g), sig="string-typed numbers"))
    if g["type"] == "RectangularRegion":
        perms = [dict(g, x1=g["x2"], x2=g["x1"]), dict(g, y1=g["y2"], y2=g["y1"]),
                 dict(g, x1=g["x2"], x2=g["x1"], y1=g["y2"], y2=g["y1"])]
        for pg in perms:
            other = build(pg)
            n += 1
            same = (other == obj) and all(bool(other.containsPoint(float(x), float(y))) ==
                                          bool(obj.containsPoint(float(x), float(y))) for x, y in POINTS[::3])
            if not same:
                viol.append(dict(msg="C17 rectangle %r behaves differently when its corners are given as %r" % (g, pg),
                                 input=dict(kind="corners", region=g, other=pg), sig="corner order"))
                break
    return n, nt, viol


def check_pair(go, gi):
    """containsRegion(outer=go, inner=gi) sound?  Returns (reported, violation|None)."""
    H.reset_pkg_state()      # every input starts from the package's import-time module state
    oo, io = build(go), build(gi)
    rep = bool(oo.containsRegion(io))
    if not rep:
        return False, None
    if not G.contains_region(go, gi):
        from .c12 import slack
        if slack(go, gi) < -1e-9:
            return True, dict(msg="C17 %r is reported to contain %r but does not (inner sticks out by %.3g)"
                                  % (go, gi, -slack(go, gi)), input=dict(kind="pair", outer=go, inner=gi),
                              sig="containsRegion %s<-%s" % (go["type"][0], gi["type"][0]))
        return True, None
    for (x, y) in G.extreme_points(gi):
        if not oo.containsPoint(float(x), float(y)) and G.contains_point(go, x, y) and not near_border(go, x, y):
            return True, dict(msg="C17 %r is reported to contain %r but its point (%s, %s) is not a point of the outer"
                                  % (go, gi, float(x), float(y)), input=dict(kind="pair", outer=go, inner=gi),
                              sig="containsRegion sample")
    return True, None


_REG = {}


def _work(arg):
    quick, lo, hi = arg
    regs = _REG[quick]
    out = dict(points=0, border=0, pairs=0, reported=0, viol=[])
    for kind, raw, g in regs[lo:hi]:
        n, nt, v = check_region(g)
        out["points"] += n
        out["border"] += nt
        out["viol"].extend(v[:1])
        for _, _, gi in regs:
            out["pairs"] += 1
            rep, v = check_pair(g, gi)
            if rep:
                out["reported"] += 1
            if v is not None and len(out["viol"]) < 4:
                out["viol"].append(v)
    return out


def prepare(ctx):
    _REG[True] = regions(True)
    _REG[False] = regions(False)
    global _FI
    _FI = engine.register_enum(_work)


def enumerate_inputs(ctx):
    regs = _REG[ctx.quick]
    step = 8
    tot = dict(points=0, border=0, pairs=0, reported=0)
    viol = []
    for r in engine.pmap(_FI, [(ctx.quick, i, i + step) for i in range(0, len(regs), step)]):
        for k in tot:
            tot[k] += r[k]
        viol.extend(r["viol"])
    viol.sort(key=lambda v: repr(v["input"]))
    seen = set()
    uniq = []
    for v in viol:
        if v["sig"] not in seen:
            seen.add(v["sig"])
            v["part"] = "c17-grid"
            uniq.append(v)
    return dict(evaluations=tot["points"] + tot["pairs"], distinct_nontrivial=tot["border"] + tot["reported"],
                exhaustive=True,
                samples=[dict(region=regs[7][2], point=[0.5, 1.0], check="containsPoint vs exact"),
                         dict(outer=regs[-3][2], inner=regs[100][2], check="containsRegion soundness")],
                parts=[dict(name="c17-grid", regions=len(regs), point_tests=tot["points"], border_points=tot["border"],
                            ordered_pairs=tot["pairs"], reported_contained=tot["reported"])],
                violations=uniq)


def replay_input(payload):
    i = payload["input"]
    if i["kind"] == "pair":
        _, v = check_pair(i["outer"], i["inner"])
        return v["msg"] if v else None
    _, _, v = check_region(i["region"])
    return v[0]["msg"] if v else None
