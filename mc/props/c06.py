"""C06 -- deferred G-codes and enter/exit scripts: exactly once per exclusion episode (E1, Plugin+Filter)."""
from ..engine import Scenario
from ..world import World

NONTRIVIAL = {"flush-by-move", "flush-by-disable", "flush-by-print-end", "deferred:first", "deferred:last",
              "deferred:merge", "deferred:exclude", "enter-script"}
RULE = ("all histories (breadth-first, to fix-point) over moves in/out of the region, a retracting move into it, "
        "codes of every configured mode with varying parameters (G4 exclude, M106 first, M117 last, M204/M205 "
        "merge incl. valueless and repeated parameters), an unconfigured M999, disable/enable, the afterPrintDone "
        "hook, PrintCancelled, a new print and a settings save that changes nothing -- with no / one-line / two-line enter and exit scripts configured "
        "through the real settings (so the script splitter is in the loop); every command emitted when an episode "
        "opens or closes must be explained by the reference accounting (deferred.py rules as list operations); "
        "non-trivial = first reached by a flush, by a deferral, or by an enter script emission")
ASSUMPTIONS = ["scripts use codes (M300, M400) that are not themselves configured as deferred codes",
               "merged commands are compared by their RS274 reading (letter -> value), order-insensitively"]

MENU = [("TRAVEL", "I1"), ("TRAVEL", "O2"), ("TRAVEL", "I2"), ("WIPE", "I1"),
        ("RAW", "G4 P100"), ("RAW", "M106 S255"), ("RAW", "M106 S0"), ("RAW", "M117 a"), ("RAW", "M117 b"),
        ("RAW", "M204 S500"), ("RAW", "M204 T200"), ("RAW", "M204 S"), ("RAW", "M204 S0"), ("RAW", "M205 X5"), ("RAW", "M999"),
        ("AT", "ExcludeRegion", "disable"), ("AT", "ExcludeRegion", "enable"),
        ("SCRIPT", "gcode", "afterPrintDone"), ("EV", "PRINT_CANCELLED"), ("NEWPRINT",), ("SET", "save", None)]


def scenarios(tier):
    q = tier == "quick"
    base = dict(prop="C06", monitors=("c06",), regions=["R"], emax=1, key_depth=False)
    scripts = [("none", None, None),
               ("one", "M300 S1 ; c\n\n", "M400\r\n"),
               ("two", "M300 S1\nSET_PIN PIN=x VALUE=1 ; klipper\r\n", "M300 S2 ; bye\n\n@resume now\nM400\n")]
    out = []
    for name, en, ex in scripts:
        drop = {"none": (("RAW", "M106 S0"), ("RAW", "M204 S"), ("RAW", "M205 X5"), ("TRAVEL", "I2")),
                "one": (("RAW", "M204 T200"), ("RAW", "M204 S"), ("RAW", "M205 X5"), ("TRAVEL", "I2"), ("RAW", "M204 S0")),
                "two": (("RAW", "M106 S0"), ("RAW", "M204 T200"), ("RAW", "M117 b"), ("TRAVEL", "I2"),
                        ("RAW", "G4 P100"))}[name]
        menu = MENU if not q else [e for e in MENU if e not in drop]
        out.append(Scenario("c06-scripts-" + name, World, dict(base, enter=en, exit=ex), menu,
                            max_states=60000 if q else 3000000))
    full = (("G4", "exclude"), ("M106", "first"), ("M117", "last"), ("M204", "merge"), ("M205", "merge"))
    out.append(Scenario("c06-codes-reconfigured", World, dict(base, exit="M400\n"),
                        [("TRAVEL", "I1"), ("TRAVEL", "O2"), ("RAW", "G4 P100"), ("RAW", "M117 a"), ("RAW", "M204 S500"),
                         ("RAW", "M106 S255"), ("SETEXT", full), ("SETEXT", (("M204", "merge"),)),
                         ("SETEXT", (("M117", "first"), ("M204", "last"))), ("NEWPRINT",)],
                        max_states=60000 if q else 3000000,
                        note="the list of extended codes is replaced through the settings between episodes: removed "
                             "entries must stop being withheld, changed modes must apply"))
    out.append(Scenario("c06-scripts-changed", World, dict(base, enter="M300 S1\n", exit="M400\n"),
                        [("TRAVEL", "I1"), ("TRAVEL", "O2"), ("RAW", "M117 a"), ("SETSCRIPT", None, None),
                         ("SETSCRIPT", "", "; nothing\n"), ("SETSCRIPT", "M300 S1\n", "M400\n"),
                         ("SETSCRIPT", "M300 S2\n", None), ("NEWPRINT",)],
                        max_states=60000 if q else 3000000,
                        note="enter / exit scripts replaced or removed (None, empty, comment only) through the settings "
                             "between episodes"))
    out.append(Scenario("c06-region-deleted", World,
                        dict(base, shrink=True, enter="M300 S1\n", exit="M400\n", maxregions=1),
                        [("TRAVEL", "I1"), ("TRAVEL", "O2"), ("TRAVEL", "I2"), ("RAW", "M117 a"), ("RAW", "M204 S500"),
                         ("API", "del", "r", None, False), ("ADD", "R", "r"), ("SCRIPT", "gcode", "afterPrintDone"),
                         ("AT", "ExcludeRegion", "disable"), ("AT", "ExcludeRegion", "enable")],
                        max_states=60000 if q else 3000000,
                        note="the region is deleted (shrinking allowed) and re-added while an episode is open"))
    return out
