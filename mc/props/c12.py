"""C12 -- the excluded area never shrinks during an active print unless explicitly allowed.

E1: request histories over a small dyadic catalogue in all four (active x mayShrink) modes.
E2: every ordered (old, new) pair of a large geometry catalogue (all corner orders, degenerate shapes,
    exact Pythagorean touches, nextafter neighbours of irrational touches), update requested while a print is
    active and shrinking is disallowed, decided against exact rational containment.
"""
import math
from fractions import Fraction as Fr

from ..engine import Scenario, Violation
from .. import engine
from ..world import World, Step, GEO, G_lattice
from ..ref import geometry as G

NONTRIVIAL = {"restricted:upd:409", "restricted:upd:None", "restricted:del:409", "restricted:add:None",
              "restricted:add:409"}
RULE = ("E1: all add/update/delete histories (breadth-first) over a dyadic catalogue, modes switched by "
        "PrintStarted/PrintDone and the mayShrink setting; E2: all ordered (old, new) pairs of the geometry "
        "catalogue with the update issued while printing and shrinking disallowed; non-trivial = requests "
        "issued in the restricted mode (E1) / pairs where the new region does not cover the old one or touches "
        "its border (E2); distinct = distinct canonical states (E1) + distinct pairs (E2)")
ASSUMPTIONS = ["containment is decided in exact rational arithmetic on the float parameters the API receives; "
               "a containment that fails or holds by less than 1e-9 (irrational touches) is accepted either way",
               "sample points: extreme points, rational circle points and a 1/4 lattice of the old region"]


def scenarios(tier):
    q = tier == "quick"
    menu = [("API", "add", "a", "rA", False), ("API", "add", "b", "cIn", False),
            ("API", "upd", "a", "rBig", False), ("API", "upd", "a", "rSmall", False), ("API", "upd", "a", "rShift", False),
            ("API", "upd", "a", "cBig", False), ("API", "upd", "a", "cTouch", False), ("API", "upd", "a", "cOut", False),
            ("API", "upd", "b", "cBig", False), ("API", "upd", "b", "rA", False), ("API", "upd", "b", "rSmall", False),
            ("API", "del", "a", None, False), ("API", "del", "b", None, False),
            ("EV", "PRINT_STARTED"), ("EV", "PRINT_DONE"), ("EV", "PRINT_PAUSED"),
            ("SET", "mayShrinkRegionsWhilePrinting", True), ("SET", "mayShrinkRegionsWhilePrinting", False)]
    cfg = dict(prop="C12", monitors=("c12",), start=False, maxregions=2, key_depth=False)
    return [Scenario("c12-requests", World, cfg, menu, max_depth=None if q else None,
                     max_states=200000 if q else 2000000)]


# ----------------------------------------------------------------------------------------------- E2
def catalogue(quick):
    cat = {}
    vals = (0, 1, 3) if quick else (0, 1, 2, 3)
    for x1 in vals:
        for x2 in vals:
            for y1 in vals:
                for y2 in vals:
                    cat["r%d%d%d%d" % (x1, y1, x2, y2)] = dict(type="RectangularRegion", x1=x1, y1=y1, x2=x2, y2=y2)
    s2 = math.sqrt(2)
    radii = [0, 0.5, 1, 1.5, 2.5, s2 / 2, math.nextafter(s2 / 2, 0), math.nextafter(s2 / 2, 9),
             s2, math.nextafter(s2, 0), math.nextafter(s2, 9), 1.5 * s2]
    if not quick:
        radii += [2, math.nextafter(1.5 * s2, 0), math.nextafter(1.5 * s2, 9), 2 * s2, math.nextafter(2 * s2, 0), 5]
    centres = [(1.5, 1.5), (1, 1), (2, 1.5)] if quick else [(cx, cy) for cx in (1, 1.5, 2) for cy in (1, 1.5, 2)]
    for cx, cy in centres:
        for i, r in enumerate(radii):
            cat["c%s_%s_%d" % (cx, cy, i)] = dict(type="CircularRegion", cx=cx, cy=cy, r=r)
    # exact Pythagorean touches: disc (0,0) r5 vs rect with corner (3,4); disc in disc touching internally
    cat["p_d5"] = dict(type="CircularRegion", cx=0, cy=0, r=5)
    cat["p_r34"] = dict(type="RectangularRegion", x1=-3, y1=-4, x2=3, y2=4)
    cat["p_r34x"] = dict(type="RectangularRegion", x1=-3, y1=-4, x2=3.25, y2=4)
    cat["p_d2in"] = dict(type="CircularRegion", cx=3, cy=0, r=2)
    cat["p_d2out"] = dict(type="CircularRegion", cx=3, cy=0.25, r=2)
    # JSON allows NaN: such a region contains no point, so it covers nothing
    cat["n_rect"] = dict(type="RectangularRegion", x1=0, y1=0, x2=float("nan"), y2=3)
    cat["n_disc"] = dict(type="CircularRegion", cx=1.5, cy=1.5, r=float("nan"))
    cat["neg_disc"] = dict(type="CircularRegion", cx=1.5, cy=1.5, r=-1.0)      # a negative radius excludes nothing
    return cat


def overshoot(outer, inner):
    """How far (float, >= 0) the inner region sticks out of the outer one; 0 when contained."""
    if inner["type"] == "CircularRegion" and inner["r"] < 0:
        return 0.0
    if outer["type"] == "RectangularRegion":
        x1, x2 = sorted((outer["x1"], outer["x2"]))
        y1, y2 = sorted((outer["y1"], outer["y2"]))
        if inner["type"] == "RectangularRegion":
            a1, a2 = sorted((inner["x1"], inner["x2"]))
            b1, b2 = sorted((inner["y1"], inner["y2"]))
        else:
            a1, a2 = inner["cx"] - inner["r"], inner["cx"] + inner["r"]
            b1, b2 = inner["cy"] - inner["r"], inner["cy"] + inner["r"]
        return max(0.0, x1 - a1, a2 - x2, y1 - b1, b2 - y2)
    R = outer["r"]
    if inner["type"] == "RectangularRegion":
        return max(0.0, max(math.hypot(x - outer["cx"], y - outer["cy"]) for x in (inner["x1"], inner["x2"])
                            for y in (inner["y1"], inner["y2"])) - R)
    return max(0.0, math.hypot(inner["cx"] - outer["cx"], inner["cy"] - outer["cy"]) + inner["r"] - R)


def slack(outer, inner):
    """Signed margin: > 0 contained with room, < 0 sticks out (float estimate)."""
    if G.is_empty(inner):
        return 1.0
    if G.is_degenerate(outer):
        return -1.0
    if outer["type"] == "RectangularRegion":
        x1, x2 = sorted((outer["x1"], outer["x2"]))
        y1, y2 = sorted((outer["y1"], outer["y2"]))
        if inner["type"] == "RectangularRegion":
            a1, a2 = sorted((inner["x1"], inner["x2"]))
            b1, b2 = sorted((inner["y1"], inner["y2"]))
        else:
            a1, a2 = inner["cx"] - inner["r"], inner["cx"] + inner["r"]
            b1, b2 = inner["cy"] - inner["r"], inner["cy"] + inner["r"]
        return min(a1 - x1, x2 - a2, b1 - y1, y2 - b2)
    R = outer["r"]
    if inner["type"] == "RectangularRegion":
        return R - max(math.hypot(x - outer["cx"], y - outer["cy"]) for x in (inner["x1"], inner["x2"])
                       for y in (inner["y1"], inner["y2"]))
    return R - (math.hypot(inner["cx"] - outer["cx"], inner["cy"] - outer["cy"]) + inner["r"])


_CAT = {}
_SCN = {}


def _cfg(quick):
    return dict(prop="C12", monitors=(), start=False, maxregions=2, key_depth=False, geo=_CAT[quick])


def check_pair(w_snap, cfg, old_name, new_name):
    """Returns None or a violation message for 'update a:=new' issued in the restricted mode."""
    cat = cfg["geo"]
    w = World.restore(w_snap, cfg)
    st = Step(("API", "upd", "a", new_name, False))
    st.before = w.regions_impl()
    k0 = w.impl_key()
    H = __import__("mc.harness", fromlist=["x"])
    H.set_user(False)
    data = dict(cat[new_name], id="a")
    import copy as _copy
    w._c12_before_regions = _copy.deepcopy(list(w.plugin.state.excludedRegions))
    try:
        resp = w.plugin.on_api_command("updateExcludeRegion", dict(data))
    except Exception as e:   # noqa
        return "C12 update raised %s: %s" % (type(e).__name__, e)
    now = w.regions_impl()
    old, new = cat[old_name], cat[new_name]
    # membership as the implementation itself decides it, on a lattice around the old region (whatever the sign of
    # a radius means to it): a point excluded before the request must be excluded after it
    import math as _m
    if old["type"] == "CircularRegion" and not G.is_degenerate(old):
        cx_, cy_, r_ = float(old["cx"]), float(old["cy"]), abs(float(old["r"]))
        probe = [(cx_ + dx * r_ / 2, cy_ + dy * r_ / 2) for dx in (-2, -1, 0, 1, 2) for dy in (-2, -1, 0, 1, 2)]
        before_objs = getattr(w, "_c12_before", None)
        for (px, py) in probe:
            was = any(r.containsPoint(px, py) for r in w._c12_before_regions) if hasattr(w, "_c12_before_regions") else None
            if was:
                still = any(r.containsPoint(px, py) for r in w.plugin.state.excludedRegions)
                if not still:
                    return ("C12 point (%s, %s) was excluded before the update of %r to %r (answered %r) and is not excluded "
                            "after it, while printing with shrinking disallowed" % (px, py, old, new, resp))
    if resp is not None and hasattr(resp, "status_code"):
        resp = None if int(resp.status_code) in (200, 204) else ("", int(resp.status_code))
    accepted = resp is None
    exact = G.contains_region(new, old)
    sl = slack(new, old)
    if accepted:
        if not exact and sl < -1e-9:
            return ("C12 update accepted while printing although the new region %r does not cover the old one %r "
                    "(sticks out by %.3g)" % (new, old, -sl))
        if not exact:
            return None          # irrational touch within 1e-9
        # every sampled point excluded before is excluded after
        for (x, y) in G.extreme_points(old) + G_lattice(old, cap=60):
            if G.contains_point(old, x, y) and not G.any_contains(now, x, y):
                return ("C12 point (%s, %s) of the old region %r is no longer excluded after the accepted update to %r"
                        % (float(x), float(y), old, new))
    else:
        if not (isinstance(resp, tuple) and len(resp) == 2 and resp[1] == 409):
            return "C12 refused update answered with %r (expected status 409)" % (resp,)
        if w.impl_key() != k0:
            return "C12 refused update changed the plugin state (%r -> %r)" % (old, new)
    return None


def _work(arg):
    quick, olds = arg
    cfg = _cfg(quick)
    cat = cfg["geo"]
    names = sorted(cat)
    out = dict(n=0, accepted=0, refused=0, touching=0, viol=[])
    for old_name in olds:
        w = World(cfg) if False else _base_world(quick)
        w = World.restore(w, cfg)
        try:
            w.step(("API", "add", "a", old_name, False))
            w.step(("EV", "PRINT_STARTED"))
        except Violation as v:
            out["n"] += 1
            if len(out["viol"]) < 3:
                out["viol"].append(dict(msg="C12 " + v.msg, input=dict(old=old_name, new=old_name, quick=quick, setup=True),
                                        sig="setup: " + v.msg[:40]))
            continue
        snap = w.snapshot()
        for new_name in names:
            msg = check_pair(snap, cfg, old_name, new_name)
            out["n"] += 1
            sl = slack(cat[new_name], cat[old_name])
            if abs(sl) < 1e-9:
                out["touching"] += 1
            if msg is not None:
                if len(out["viol"]) < 3:
                    out["viol"].append(dict(msg=msg, input=dict(old=old_name, new=new_name, quick=quick),
                                            sig=msg.split("(")[0][:60]))
            elif sl < 0:
                out["refused"] += 1
            else:
                out["accepted"] += 1
    return out


_BASE = {}


def _base_world(quick):
    import os
    key = (quick, os.getpid())
    if key not in _BASE:
        _BASE[key] = World(_cfg(quick)).snapshot()
    return _BASE[key]


def prepare(ctx):
    _CAT[True] = catalogue(True)
    _CAT[False] = catalogue(False)
    global _FI
    _FI = engine.register_enum(_work)


def enumerate_inputs(ctx):
    quick = ctx.quick
    names = sorted(_CAT[quick])
    chunks = [(quick, names[i:i + 4]) for i in range(0, len(names), 4)]
    tot = dict(n=0, accepted=0, refused=0, touching=0)
    viol = []
    for r in engine.pmap(_FI, chunks):
        for k in tot:
            tot[k] += r[k]
        viol.extend(r["viol"])
    viol.sort(key=lambda v: (v["input"]["old"], v["input"]["new"]))
    for v in viol:
        v["part"] = "c12-pairs"
    cat = _CAT[quick]
    return dict(evaluations=tot["n"], distinct_nontrivial=tot["refused"] + tot["touching"], exhaustive=True,
                traces_validated_against_impl=tot["n"],
                samples=[dict(old=cat[names[3]], new=cat[names[-7]], request="updateExcludeRegion while printing")],
                parts=[dict(name="c12-pairs", catalogue=len(names), pairs=tot["n"], accepted=tot["accepted"],
                            refused=tot["refused"], touching_within_1e9=tot["touching"])],
                violations=viol)


def replay_input(payload):
    prepare_once()
    i = payload["input"]
    quick = i["quick"]
    cfg = _cfg(quick)
    w = World(cfg)
    try:
        w.step(("API", "add", "a", i["old"], False))
        w.step(("EV", "PRINT_STARTED"))
    except Violation as v:
        return "C12 " + v.msg
    return check_pair(w.snapshot(), cfg, i["old"], i["new"])


def prepare_once():
    if not _CAT:
        _CAT[True] = catalogue(True)
        _CAT[False] = catalogue(False)
