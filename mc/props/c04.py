"""C04 -- extruder coordinate / extruded amounts preserved outside regions (E1, FilterWorld)."""
from ..engine import Scenario
from ..world import World

NONTRIVIAL = {"E-resync-at-exit", "extruding-move-forwarded"}
RULE = ("breadth-first enumeration of all absolute-extrusion histories with matched equal-length "
        "retract/recover cycles (E-only or G10/G11), G92 E0 at arbitrary points, mm/inch, disable/enable; "
        "non-trivial = the first-reaching transition closed an episode (G92 E re-sync emitted) or forwarded "
        "an extruding move whose pushed filament was compared with the file's")
ASSUMPTIONS = ["absolute extrusion, matched equal-length cycles, E-only or firmware (premise of C04)",
               "retracting *moves* (wipes) are not in the menu: the property's premise is E-only or G10/G11 cycles"]

BASE = [("TRAVEL", "O2"), ("TRAVEL", "I1"), ("TRAVEL", "I2"), ("TRAVEL", "O1"), ("PRINT", "O2"), ("PRINT", "I1"),
        ("PRINT", "O1"), ("RETRACT",), ("RECOVER",), ("ESET0",)]


def scenarios(tier):
    q = tier == "quick"
    mon = ("c04",)
    return [
        Scenario("c04-eonly", World, dict(prop="C04", monitors=mon, regions=["R"], emax=2 if q else 3),
                 BASE + [("ZMOVE", 2), ("ESET", "2"), ("TRAVELE", "O2"), ("TRAVELE", "I1"), ("SET", "save", None)], max_states=150000 if q else 2000000),
        Scenario("c04-arcs", World, dict(prop="C04", monitors=mon, regions=["R"], emax=2, key_depth=True),
                 [("TRAVEL", "O1"), ("TRAVEL", "O2"), ("TRAVEL", "I1"), ("PRINT", "O1"), ("ARC", "under", "E"),
                  ("ARC", "cross", "E"), ("ARC", "into", "E"), ("ARC", "clear", "E"), ("RETRACT",), ("RECOVER",), ("ESET0",)],
                 max_states=150000 if q else 2000000, note="printing arcs (G2/G3 with an E word) clear of, across and into the region"),
        Scenario("c04-firmware", World, dict(prop="C04", monitors=mon, regions=["R", "D"], emax=2),
                 [e for e in BASE if e[0] not in ("RETRACT", "RECOVER")] + [("FWRETRACT",), ("FWRECOVER",)],
                 max_states=150000 if q else 2000000),
        Scenario("c04-g90e-flag", World, dict(prop="C04", monitors=mon, regions=["R"], emax=2, g90e=True, key_depth=False),
                 [("TRAVEL", "O2"), ("TRAVEL", "I1"), ("PRINT", "O2"), ("PRINT", "I2"), ("PRINT", "O1"), ("REL",), ("ABS",),
                  ("SET", "g90e", False), ("SET", "g90e", True), ("NEWPRINT",)],
                 max_depth=7 if q else 10, max_states=3000000,
                 note="OctoPrint's global g90InfluencesExtruder flag is on when the plugin loads and is switched in the "
                      "settings later (while the file is in G90); relative sections then read E accordingly"),
        Scenario("c04-at-inch", World, dict(prop="C04", monitors=mon, regions=["R"], emax=1),
                 [("TRAVEL", "O2"), ("TRAVEL", "I1"), ("PRINT", "O2"), ("PRINT", "I2"), ("PRINT", "O1"), ("RETRACT",),
                  ("RECOVER",), ("ESET0",), ("INCH",), ("MM",), ("AT", "ExcludeRegion", "disable"),
                  ("AT", "ExcludeRegion", "enable")],
                 max_depth=7 if q else 9, max_states=3000000),
    ]
