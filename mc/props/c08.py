"""C08 -- exclusion decisions are invariant under re-encoding of the same tool path (E1, product of two worlds)."""
from ..engine import Scenario
from ..product import ProductWorld
from .. import findings
from .. import harness as H

NONTRIVIAL = {"decision:suppressed", "decision:rewritten", "switch"}
RULE = ("all abstract tool paths (travel/print moves to points inside, outside and 0.5 mm outside the region, "
        "Z changes, retract/recover) up to the depth bound, executed simultaneously on two real plugins: the "
        "reference encoding (absolute mm) and a variant that switches -- at every possible position of the path -- "
        "to inches, to relative coordinates, or to a G92-re-based origin, or that runs path and regions translated "
        "by (16,-8) from the start; per step the decision class (verbatim / suppressed / rewritten), the episode "
        "flag and (outside episodes) the physical position of the reference printers must agree; non-trivial = the "
        "first-reaching step was suppressed or rewritten, or was the switch itself")
ASSUMPTIONS = ["destinations keep a margin >= 0.5 mm from region borders (the property's premise)",
               "positions compared within 1e-4 mm (the inch encoding is itself rounded to 1e-6 in = 2.5e-5 mm)",
               "G92 re-basing is applied only outside an open episode (C03's carve-out); it is explored in the "
               "dedicated c08-g92 scenario (known finding D16)"]

PATH = [("TRAVEL", "O2"), ("TRAVEL", "I1"), ("TRAVEL", "O1"), ("TRAVEL", "F3"), ("TRAVEL", "Org"), ("XONLY", "I1"), ("YONLY", "I1"), ("PRINT", "I2"), ("PRINT", "O2"), ("TRAVEL", "H"),
        ("TRAVELZ", "I1", 2), ("ZMOVE", 2), ("ZMOVE", 1), ("RETRACT",), ("RECOVER",), ("SWITCH",)]
# layer-sized Z steps for the unit re-encoding (0.4 / 0.6 mm are the same to two decimals in inches)
PATH_INCH = [e for e in PATH if e not in (("ZMOVE", 2), ("TRAVEL", "Org"), ("YONLY", "I1"))] + [("ZMOVE", "0.4"), ("ZMOVE", "0.6")]


def scenarios(tier):
    q = tier == "quick"
    w = dict(prop="C08", monitors=(), regions=["R"], emax=1, key_depth=False)
    out = []
    # a home offset set (in millimetres) before the units change: it is the same physical offset afterwards
    m206 = ("RAW", "M206 Z0.25")     # Z only: the reference printers do not model home offsets, X/Y offsets would move the region tests
    for T in ("inch", "rel", "translate"):
        out.append(Scenario("c08-" + T, ProductWorld, dict(prop="C08", T=T, world=w, pre_switch_only=(m206,)),
                            ((PATH_INCH + [m206] if T == "inch" else PATH) + [("HOME", "XY"), ("HOME", "W")]) if T != "translate" else PATH[:-1],
                            max_depth=(5 if q else 8) if T != "translate" else (7 if q else 9), max_states=3000000))
    out.append(Scenario("c08-g92", ProductWorld, dict(prop="C08", T="g92", world=w), PATH, max_depth=4 if q else 6,
                        max_states=3000000, finding="D16", note="dedicated to known finding D16 (G92 X/Y/Z offset sign)"))
    return out


def d16_fingerprint():
    """The defect is still present iff the pinned (wrong) arithmetic is: AxisPosition(100, 20, 50, True, 10)
    .setLogicalOffsetPosition(20) gives offset 220 (correct: -120)."""
    from octoprint_excluderegion.AxisPosition import AxisPosition
    a = AxisPosition(100, 20, 50, True, 10)
    a.setLogicalOffsetPosition(20)
    return a.offset == 220


@findings.predicate("D16")
def _is_d16(finding, payload):
    if not d16_fingerprint():
        return False
    for row in payload.get("trace", []):
        for hc in row.get("hook_calls", []):
            c = hc.get("cmd", "")
            if c.startswith("G92") and any(w[0] in "XYZ" for w in c.split()[1:]):
                return True
    return False
