"""C03 -- leaving a region re-synchronises X/Y/Z, mode, units, Z order (E1, FilterWorld)."""
from ..engine import Scenario
from .. import findings
from ..world import World, no_relative_disable

NONTRIVIAL = {"resync-by-move", "resync-by-disable"}
RULE = ("breadth-first enumeration of all event histories over the scenario menu (travel/print moves, "
        "entering moves that change Z, Z-only moves, retract/recover, G92 E0, G90/G91, G20/G21, "
        "@ExcludeRegion disable) on the real plugin; non-trivial = the transition that first reached the state "
        "closed an episode (by a move or by disable), i.e. the re-synchronisation sequence was emitted and "
        "interpreted by reference printer A")
ASSUMPTIONS = ["no G28 / G92 X/Y/Z / M206 while an episode is open (the property's premise)",
               "positions compared with an absolute tolerance of 1e-6 mm"]

MOVES = [("TRAVEL", "O2"), ("TRAVEL", "I1"), ("TRAVEL", "O1"), ("TRAVEL", "Org"), ("YONLY", "I1"), ("PRINT", "I2"), ("PRINT", "O2"),
         ("TRAVELZ", "I1", 2), ("TRAVELZ", "O2", 2), ("TRAVELZ", "I2", 1), ("ZMOVE", 2), ("ZMOVE", 1)]


def scenarios(tier):
    q = tier == "quick"
    mon = ("c03",)
    out = [
        Scenario("c03-abs-mm", World, dict(prop="C03", monitors=mon, regions=["R"], emax=1, enter="M300 S1\n"),
                 [m for m in MOVES if not q or m not in (("TRAVELZ", "I2", 1), ("TRAVEL", "O1"))]
                 + [("RETRACT",), ("RECOVER",), ("AT", "ExcludeRegion", "disable"), ("SET", "save", None)] + ([] if q else [("ESET0",)]),
                 max_states=100000 if q else 1000000, note="an enter script is configured (the entering move yields commands)"),
        Scenario("c03-rel-mm", World, dict(prop="C03", monitors=mon, regions=["R"], emax=1, guard=no_relative_disable, repeat_modes=True),
                 MOVES + [("REL",), ("ABS",), ("WIPE", "O2"), ("WIPE", "O1"), ("WIPE", "I1"), ("RECOVER",), ("AT", "ExcludeRegion", "disable")],
                 max_depth=6 if q else 9, max_states=3000000),
        Scenario("c03-inch", World, dict(prop="C03", monitors=mon, regions=["R"], emax=1, enter="M300 S1\n"),
                 [("TRAVEL", "O2"), ("TRAVEL", "I1"), ("TRAVEL", "H"), ("PRINT", "I2"), ("PRINT", "O1"),
                  ("TRAVELZ", "I1", 2), ("ZMOVE", 2), ("ZMOVE", 1), ("INCH",), ("MM",), ("REL",), ("ABS",)],
                 max_depth=6 if q else 8, max_states=3000000),
    ]
    out.append(Scenario("c03-z-digits", World, dict(prop="C03", monitors=mon, regions=["R"], emax=1, key_depth=False),
                        [("TRAVEL", "O2"), ("TRAVEL", "I1"), ("TRAVEL", "F3"), ("ZMOVE", "9.8"), ("ZMOVE", "10"), ("ZMOVE", "0.6"),
                         ("REL",), ("ABS",), ("AT", "ExcludeRegion", "disable")],
                        max_states=100000 if q else 1000000, guard=None,
                        note="Z values with different numbers of integer digits (9.8 / 10), three-decimal coordinates in "
                             "relative mode") if False else
                 Scenario("c03-z-digits", World, dict(prop="C03", monitors=mon, regions=["R"], emax=1, key_depth=False,
                                                      guard=no_relative_disable),
                          [("TRAVEL", "O2"), ("TRAVEL", "I1"), ("TRAVEL", "F3"), ("ZMOVE", "9.8"), ("ZMOVE", "10"),
                           ("ZMOVE", "0.6"), ("REL",), ("ABS",), ("AT", "ExcludeRegion", "disable")],
                          max_depth=6 if q else 9, max_states=100000 if q else 1000000,
                          note="Z values with different numbers of integer digits (9.8 / 10), three-decimal coordinates in "
                               "relative mode"))
    out.append(Scenario("c03-arcs", World, dict(prop="C03", monitors=mon, regions=["R"], emax=1, key_depth=False),
                        [("TRAVEL", "O1"), ("TRAVEL", "O2"), ("TRAVEL", "I1"), ("ARC", "cross"), ("ARC", "into"),
                         ("ARC", "under"), ("ARC", "cross", "Z"), ("ARC", "into", "EZ"), ("ZMOVE", 2), ("ZMOVE", 1), ("XONLY", "O2"), ("YONLY", "I1"), ("PRINT", "O3")],
                        max_states=100000 if q else 1000000,
                        note="arcs crossing or ending in the region followed by Z-only and single-axis moves"))
    # known finding D21: a home offset (Z only: the reference printers treat M206 as a re-labelling of coordinates that
    # leaves every later logical Z word meaning what it says) set before an episode in which Z changes
    out.append(Scenario("c03-m206", World, dict(prop="C03", monitors=mon, regions=["R"], emax=1, key_depth=False),
                        [("RAW", "M206 Z0.2"), ("TRAVEL", "I1"), ("TRAVEL", "O2"), ("ZMOVE", "0.6"), ("ZMOVE", 2)],
                        max_depth=5, finding="D21",
                        note="dedicated to known finding D21 (M206 moves the tracked position)"))
    return out


def d21_fingerprint():
    """The defect is still present iff the pinned arithmetic is: AxisPosition(0, 0, 0, True, 10).setHomeOffset(20)
    leaves current == -200 (a home offset does not move the tool: 0)."""
    from octoprint_excluderegion.AxisPosition import AxisPosition
    a = AxisPosition(0, 0, 0, True, 10)
    a.setHomeOffset(20)
    return a.current == -200


@findings.predicate("D21")
def _is_d21(finding, payload):
    if not d21_fingerprint():
        return False
    for row in payload.get("trace", []):
        for hc in row.get("hook_calls", []):
            c = hc.get("cmd", "")
            if c.startswith("M206") and any(w[0] in "XYZ" for w in c.split()[1:]):
                return True
    return False
