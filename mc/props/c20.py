"""C20 -- offline stream filtering equals live filtering and is isolated (E2 over all small files x live states)."""
import io, itertools

from .. import engine
from .. import harness as H
from ..ref import linefile

RULE = ("every file of up to N lines over a 33-line alphabet (moves into/out of the region, printing and "
        "retracting moves, homing with comment, G92 E0 with comment, deferred codes, a numbered+checksummed line, "
        "leading blanks, blank / blank-only / comment-only lines, handled and unhandled @-commands, G10 tool form, "
        "firmware retract/recover, an arc, T0, an unknown code) x {LF, CRLF} x {last line terminated or not}, "
        "filtered by a StreamProcessor created from each of five live states (homed; inside an episode with "
        "deferred codes; exclusion disabled; recovery owed; retracted in inch mode); oracle = a twin plugin (fresh objects restored from "
        "the same live state) driven through the real queuing hooks with the command text extracted by an "
        "independent line splitter; non-trivial = files in which at least one line was rewritten or dropped")
ASSUMPTIONS = ["process_line(str) is the observation point (StreamProcessor.read() hands bytes to process_line under "
               "the installed OctoPrint/Python 3, an environment incompatibility of a component the plugin never wires in)",
               "line numbers / checksums are stripped before the command reaches the twin's hook; canonical upper-case "
               "command spellings only (OctoPrint itself does not recognise 'g1' or 'G01 ' differently from the stream parser)",
               "commands are compared after stripping surrounding blanks",
               "a command the live hooks forward unchanged (hook result None or [cmd], which mean the same to OctoPrint) may "
               "come back either as the source line byte for byte or as the command terminated by the file's line ending; "
               "non-command lines and unhandled @-commands must come back byte for byte"]

LINES = ["G1 X50 Y40", "G1 X70 Y65 E1", "G0 X10 Y10", "G1 X55 Y35 E-1", "G1 E-1 F1800", "G1 E0 F1800",
         "G28 X Y ; home", "G92 E0 ; c", "M117 hi ; msg", "M204 S5", "N3 G1 X10 Y10*7 ; go", "  G1 X20 Y20", "", "   ",
         "; only comment", "@ExcludeRegion disable x", "@ExcludeRegion enable", "@foo", "G10 P1 ; tool", "G10", "G11",
         "G2 X30 Y10 I10 J0 ; arc", "T0", "M999 ; unk", "G91", "G90 ; abs", "G20", "G1 Z2 F600", "  G10 ; indented", "  @ExcludeRegion disable", "M206 X-30", "G1 X80 Y40 E2", "@ExcludeRegion\tdisable"]
LIVE = {
    "homed": [],
    "in-episode": [("TRAVEL", "I1"), ("RAW", "M117 pending"), ("RAW", "M204 S9")],
    "disabled": [("AT", "ExcludeRegion", "disable")],
    "recovery-owed": [("TRAVEL", "I1"), ("RETRACT",), ("RECOVER",), ("TRAVEL", "O2")],
    "retracted-inch": [("RETRACT",), ("INCH",)],
}
CFG = dict(prop="C20", monitors=(), regions=["R"], key_depth=False, exit="M400\n", enter="M117 in\n")
_BASE = {}


def live_snapshot(name):
    import os
    from ..world import World
    key = (name, os.getpid())
    if key not in _BASE:
        w = World(CFG)
        for ev in LIVE[name]:
            w.step(ev)
        _BASE[key] = w.snapshot()
    return _BASE[key]


def check_file(live, lines, eol, last_terminated, busy=False):
    """Returns (rewritten_any, violation message | None).  busy: the live print goes on between the creation of
    the processor and its first line (a file uploaded while printing): the processor filters from the state it was
    created from."""
    from ..world import World
    W = World.restore(live_snapshot(live), CFG)
    T = World.restore(live_snapshot(live), CFG)
    k0 = W.impl_key()
    try:
        sp = H.StreamProcessor(io.BytesIO(b""), W.plugin.gcodeHandlers)
    except Exception as e:   # noqa
        return False, "C20 StreamProcessor could not be created: %s: %s" % (type(e).__name__, e)
    if busy:
        if W.impl_key() != k0:
            return False, "C20 creating a StreamProcessor modified the live plugin's state (live state %s)" % live
        for c in ("G91", "G1 X1 Y1 Z0.3", "@ExcludeRegion disable", "G20"):
            if c.startswith("@"):
                W.plugin.handleAtCommandQueuing(W.comm, "queuing", c[1:].split()[0], c.split(None, 1)[1], tags=set())
            else:
                g, sc = H.gcode_and_subcode_for_cmd(c)
                W.plugin.handleGcodeQueuing(W.comm, "queuing", c, None, g, sc, tags=set())
        k0 = W.impl_key()
    touched = False
    file_eol = None
    for idx, body in enumerate(lines):
        line = body + (eol if (last_terminated or idx < len(lines) - 1) else "")
        try:
            out = sp.process_line(line)
        except Exception as e:   # noqa
            return touched, "C20 process_line(%r) raised %s: %s" % (line, type(e).__name__, e)
        parts = linefile.split(line)
        if parts["eol"] and file_eol is None:
            file_eol = parts["eol"]
        use_eol = file_eol or "\n"
        cmd = parts["command"]
        expect = None                     # None = the live hooks leave the line alone
        unchanged_cmd = False             # the live hooks forward the command itself ([cmd] and None mean the same)
        if cmd.startswith("@"):
            pieces = cmd[1:].split(None, 1) if len(cmd) > 1 else []
            T.comm.sent = []
            acts = T._at_reference(pieces[0] if pieces else "", pieces[1] if len(pieces) > 1 else "")
            T.plugin.handleAtCommandQueuing(T.comm, "queuing", pieces[0] if pieces else "",
                                            pieces[1] if len(pieces) > 1 else "", tags=set())
            if acts:
                expect = list(T.comm.sent)
        elif linefile.is_gcode(cmd):
            g, sc = H.gcode_and_subcode_for_cmd(cmd)
            r = T.plugin.handleGcodeQueuing(T.comm, "queuing", cmd, None, g, sc, tags=set())
            fwd = H.decode(cmd, r)
            if fwd == [cmd]:
                unchanged_cmd = True
            else:
                expect = fwd
        where = "line %d %r of %r (live state %s)" % (idx, line, lines, live)
        if unchanged_cmd:
            # either the source line byte for byte, or the command itself terminated by the file's line ending
            ok = out == line or (isinstance(out, str) and out.endswith(use_eol) and
                                 out[:-len(use_eol)].strip(" ") == cmd.strip(" ") and
                                 "\n" not in out[:-len(use_eol)] and "\r" not in out[:-len(use_eol)])
            if not ok:
                return touched, ("C20 %s: the live hooks forward the command unchanged; the stream processor returned %r "
                                 "(neither the line byte for byte nor the command terminated by %r)" % (where, out, use_eol))
            continue
        if expect is None:
            if out != line:
                return touched, "C20 untouched line is not reproduced byte for byte: %s came back as %r" % (where, out)
            continue
        touched = True
        if not expect:
            if out is not None:
                return touched, "C20 %s: the live hooks send nothing, the stream processor emitted %r" % (where, out)
            continue
        if not isinstance(out, str) or not out.endswith(use_eol):
            return touched, ("C20 %s: emitted text %r is not terminated by the file's line ending %r"
                             % (where, out, use_eol))
        got = out[:-len(use_eol)].split(use_eol)
        if [g.strip(" ") for g in got] != [e.strip(" ") for e in expect]:
            return touched, ("C20 %s: the stream processor emitted %r, the live hooks send %r" % (where, got, expect))
        if any("\n" in g or "\r" in g for g in got):
            return touched, "C20 %s: emitted text %r mixes line endings (file uses %r)" % (where, out, use_eol)
    if W.impl_key() != k0:
        return touched, "C20 filtering %r modified the live plugin's state (live state %s)" % (lines, live)
    return touched, None


def _work(arg):
    live, first, n = arg
    out = dict(files=0, lines=0, nt=0, viol=[])
    sigs = set()
    for rest in itertools.product(LINES, repeat=n - 1):
        seq = (first,) + rest
        for eol in ("\n", "\r\n"):
            for lt in (True, False):
                out["files"] += 1
                out["lines"] += n
                for busy in ((False, True) if (eol == "\n" and lt) else (False,)):
                    if busy:
                        out["files"] += 1
                        out["lines"] += n
                        out["busy"] = out.get("busy", 0) + 1
                    touched, msg = check_file(live, seq, eol, lt, busy)
                    if touched:
                        out["nt"] += 1
                    if msg:
                        sig = " ".join(msg.split()[:4])
                        if sig not in sigs and len(out["viol"]) < 3:
                            sigs.add(sig)
                            out["viol"].append(dict(msg=msg, sig=sig, input=dict(live=live, lines=list(seq), eol=eol,
                                                                                     last_terminated=lt, busy=busy)))
    return out


def prepare(ctx):
    global _FI
    _FI = engine.register_enum(_work)


def enumerate_inputs(ctx):
    N = 2 if ctx.quick else 3
    tasks = [(live, first, n) for live in LIVE for n in range(1, N + 1) for first in LINES]
    if ctx.quick:
        tasks += [("in-episode", first, 3) for first in LINES[:6]]
    else:
        tasks += [("in-episode", first, 4) for first in LINES[:4]]
    tot = dict(files=0, lines=0, nt=0, busy=0)
    viol = []
    for r in engine.pmap(_FI, tasks):
        for k in tot:
            tot[k] += r.get(k, 0)
        viol.extend(r["viol"])
    seen, uniq = set(), []
    for v in sorted(viol, key=lambda v: (len(v["input"]["lines"]), repr(v["input"]))):
        if v["sig"] not in seen:
            seen.add(v["sig"])
            v["part"] = "c20"
            uniq.append(v)
    return dict(evaluations=tot["files"], distinct_nontrivial=tot["nt"], exhaustive=True,
                traces_validated_against_impl=tot["files"],
                samples=[dict(live="in-episode", eol="\r\n", lines=["G28 X Y ; home", "G1 X70 Y65 E1"]),
                         dict(live="recovery-owed", eol="\n", lines=["N3 G1 X10 Y10*7 ; go", "@ExcludeRegion disable x"])],
                parts=[dict(name="c20-files", line_forms=len(LINES), live_states=len(LIVE), max_lines=N,
                            files=tot["files"], line_steps=tot["lines"], files_with_rewrites=tot["nt"],
                            files_filtered_while_the_live_print_went_on=tot["busy"])],
                violations=uniq)


def replay_input(payload):
    i = payload["input"]
    return check_file(i["live"], tuple(i["lines"]), i["eol"], i["last_terminated"], i.get("busy", False))[1]
