"""C05 -- retractions never doubled, recovered before printing resumes (E1, FilterWorld)."""
from ..engine import Scenario
from ..world import World

NONTRIVIAL = {"recovery-owed", "printing-move", "generated-fw-cmd"}
RULE = ("breadth-first enumeration, to fix-point, of the retraction machine composed with every way an "
        "episode can begin (travel / print / Z-only move) and end (travel / print / disable) relative to the "
        "retract/recover cycle; E-only and firmware cycles in separate scenarios; non-trivial = the state was "
        "first reached while a recovery was owed to the printer, by a forwarded printing move, or by a generated "
        "G10/G11")
ASSUMPTIONS = ["matched equal-length cycles, E-only or G10/G11, never mixed; absolute extrusion"]

MOVES = [("TRAVEL", "O2"), ("TRAVEL", "I1"), ("TRAVEL", "I2"), ("TRAVEL", "O1"), ("PRINT", "O2"), ("PRINT", "I1"),
         ("PRINT", "O1"), ("ZMOVE", 2), ("ZMOVE", 1), ("ESET0",),
         ("AT", "ExcludeRegion", "disable"), ("AT", "ExcludeRegion", "enable")]


def scenarios(tier):
    q = tier == "quick"
    mon = ("c05",)
    return [
        Scenario("c05-eonly", World, dict(prop="C05", monitors=mon, regions=["R"], emax=1 if q else 2),
                 MOVES + [("RETRACT",), ("RECOVER",), ("TRAVELE", "O2"), ("TRAVELE", "I1"), ("RAW", "G10 P0 S205 R170"), ("SET", "save", None)],
                 max_states=200000 if q else 3000000,
                 note="incl. travel moves that repeat the current E value, a tool-temperature G10 (P word first) and a "
                      "settings save that changes nothing"),
        Scenario("c05-inch", World, dict(prop="C05", monitors=mon, regions=["R"], emax=1),
                 [("TRAVEL", "O2"), ("TRAVEL", "I1"), ("PRINT", "O1"), ("PRINT", "I2"), ("RETRACT",), ("RECOVER",),
                  ("INCH",), ("MM",), ("ESET0",)], max_depth=7 if q else 10, max_states=3000000,
                 note="inch units: the generated G92/G1 pairs must be expressed in the file's units"),
        Scenario("c05-firmware-compact", World,
                 dict(prop="C05", monitors=mon, regions=["R"], emax=1, fw_retract="G10S1", fw_recover="G11S1"),
                 [("TRAVEL", "O2"), ("TRAVEL", "I1"), ("PRINT", "O1"), ("PRINT", "I2"), ("FWRETRACT",), ("FWRECOVER",),
                  ("AT", "ExcludeRegion", "disable"), ("AT", "ExcludeRegion", "enable")],
                 max_states=200000 if q else 3000000, note="G10S1 / G11S1: no blank between code and parameter"),
        Scenario("c05-firmware-spellings", World, dict(prop="C05", monitors=mon, regions=["R"], emax=1),
                 [("TRAVEL", "O2"), ("TRAVEL", "I1"), ("PRINT", "O1"), ("FWRETRACT", "G10"), ("FWRETRACT", "G10 S1."),
                  ("FWRETRACT", "G10 S"), ("FWRETRACT", "G10\tS1"), ("FWRECOVER", "G11"), ("FWRECOVER", "G11 S1."),
                  ("RAW", "G10 P0 S205 R170"), ("RAW", "G10 L2 P1 X0 Y0")],
                 max_states=200000 if q else 3000000,
                 note="legal spellings of the firmware cycle (bare, trailing decimal point, value-less S, TAB) next to "
                      "G10 commands that are not retractions (P/L word first)"),
        Scenario("c05-regions-later", World, dict(prop="C05", monitors=mon, regions=[], maxregions=1, emax=1),
                 [("TRAVEL", "O2"), ("TRAVEL", "I1"), ("PRINT", "O1"), ("RETRACT",), ("RECOVER",), ("ADD", "R", "r")],
                 max_states=200000 if q else 3000000,
                 note="the print starts without regions; the first region is added at any point of a retract/recover cycle"),
        Scenario("c05-regions-later-fw", World, dict(prop="C05", monitors=mon, regions=[], maxregions=1, emax=1),
                 [("TRAVEL", "O2"), ("TRAVEL", "I1"), ("PRINT", "O1"), ("FWRETRACT",), ("FWRECOVER",), ("ADD", "R", "r")],
                 max_states=200000 if q else 3000000, note="the same with firmware cycles (G10/G11)"),
        Scenario("c05-firmware", World, dict(prop="C05", monitors=mon, regions=["R"], emax=1 if q else 2),
                 MOVES + [("FWRETRACT",), ("FWRECOVER",)], max_states=200000 if q else 3000000),
    ]
