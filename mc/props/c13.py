"""C13 -- region registry integrity and client notification (E1, PluginWorld, fix-point)."""
from ..engine import Scenario
from ..world import World

NONTRIVIAL = {"list-changed", "rejected:403", "rejected:400", "rejected:409", "get"}
RULE = ("all histories (breadth-first, to fix-point, list length <= 3) of API requests {add with id a/b/fresh, "
        "duplicate id, update of present/missing id, wrong type, delete present/missing, anonymous user, GET} "
        "interleaved with PrintStarted/PrintDone/FileSelected and the two settings; non-trivial = first reached "
        "by a step that changed the list, was rejected, or was a GET")
ASSUMPTIONS = ["responses are read as (message, status) tuples or None (=200), as OctoPrint's SimpleApiPlugin does",
               "uuid4 is replaced by a per-world counter (at most two fresh ids per history)"]


def scenarios(tier):
    q = tier == "quick"
    menu = [("API", "add", "id-a", "rA", False), ("API", "add", "id-b", "cIn", False), ("API", "add", None, "rSmall", False),
            ("API", "add", "id-a", "cBig", True), ("API", "add", "c", "Foo", False), ("API", "add", "f", "rFine", False),
            ("API", "upd", "f", "cFine", False), ("API", "add", 7, "cIn", False), ("API", "del", 7, None, False),
            ("API", "upd", "id-a", "rBig", False), ("API", "upd", "id-a", "rSmall", False), ("API", "upd", "zz", "rA", False),
            ("API", "upd", "id-a", "Foo", False), ("API", "upd", "id-b", "cBig", False), ("API", "upd", "id-a", "cTouch", False),
            ("API", "upd", "id-a", "rBig", True),
            ("API", "del", "id-a", None, False), ("API", "del", "zz", None, False), ("API", "del", "id-a", None, True),
            ("GET",),
            ("EV", "PRINT_STARTED"), ("EV", "PRINT_DONE"), ("EV", "FILE_SELECTED"),
            ("SET", "clearRegionsAfterPrintFinishes", True), ("SET", "mayShrinkRegionsWhilePrinting", True),
            ("SET", "mayShrinkRegionsWhilePrinting", False)]
    if not q:
        menu += [("API", "del", "id-b", None, False), ("API", "upd", None, "rA", False), ("EV", "PRINT_CANCELLED"),
                 ("SET", "clearRegionsAfterPrintFinishes", False)]
    cfg = dict(prop="C13", monitors=("c13",), start=False, maxregions=2 if q else 3, maxfresh=1 if q else 2,
               key_depth=False)
    return [Scenario("c13-registry", World, cfg, menu, max_states=400000 if q else 3000000)]
