"""C16 -- arc moves are sampled faithfully (E2 grid + end-to-end through the hook)."""
import math

from .. import engine
from .. import harness as H
from ..world import World

RULE = ("I/J form: start points x radii {0.2..500} x 12 start angles x sweeps pi/12..2pi x {CW, CCW}; each arc is "
        "planned by GcodeHandlers.planArc from a homed state and every sample is checked (on the circle, equal "
        "angular steps of the commanded sign summing to the commanded sweep, chord <= 1, last sample == commanded "
        "end point); R form: every chord between lattice points x |R| in {chord/2, chord/2+eps, chord, 500} x sign x "
        "direction through computeArcCenterOffsets (centre at |R| from both end points, on the RS274 side); "
        "end-to-end: the same arcs as G2/G3 commands through the queuing hook with a disc region of radius 1 "
        "centred on a true arc point (must be suppressed) and with all regions >= 2 mm away (must be forwarded "
        "verbatim); non-trivial = arcs with more than one segment; inputs are distinct by construction")
ASSUMPTIONS = ["absolute positioning, millimetres (the property's quantifier)",
               "R form follows the RS274/Marlin convention: R>0 selects the arc of at most 180 degrees",
               "known finding D2 (R-form centre mirrored) is attributed only by its exact signature"]

TWO_PI = 2 * math.pi
STARTS = [(0.0, 0.0), (50.0, 50.0), (-20.0, 35.5)]
RADII = [0.2, 0.5, 1, 2.5, 10, 50, 137, 500]

_H = {}


def handlers():
    import os
    if os.getpid() not in _H:
        st = H.ExcludeRegionState(H.LOG)
        h = H.GcodeHandlers(st, H.LOG)
        h.handleGcode("G28", "G28")
        _H[os.getpid()] = h
    return _H[os.getpid()]


def setpos(h, x, y):
    p = h.state.position
    p.X_AXIS.current = x
    p.Y_AXIS.current = y
    p.Z_AXIS.current = 1.0


def ij_arcs(quick):
    angs = range(12) if quick else range(24)
    for (sx, sy) in STARTS:
        for rad in RADII:
            for k in angs:
                a0 = k * (math.pi / 6 if quick else math.pi / 12) + 0.1
                for m in range(1, 25):
                    for cw in (True, False):
                        yield (sx, sy, rad, a0, m, cw)
                if k % 3 == 0:
                    # arcs that end a few micrometres from where they start (ninth wave, w9c16: "end == start means a
                    # full circle" decided with a tolerance): the commanded sweep is chord / radius, not 2 pi
                    for chord in (0.004, 0.0005):
                        for cw in (True, False):
                            yield (sx, sy, rad, a0, (chord / rad) * 12 / math.pi, cw)
                if rad >= 50 and k % 3 == 0:
                    # gently curved walls: sweeps of a few hundredths of a radian (m is in twelfths of pi)
                    for sw in (0.01, 0.02, 0.05):
                        for cw in (True, False):
                            yield (sx, sy, rad, a0, sw * 12 / math.pi, cw)


def arc_geometry(sx, sy, rad, a0, m, cw, aligned=False):
    # the centre offsets are what a slicer writes (I = -r cos a0, J = -r sin a0); the centre is start + offset
    cx = sx + (-rad * math.cos(a0))
    cy = sy + (-rad * math.sin(a0))
    sweep = m * math.pi / 12
    sgn = -1 if cw else 1
    a1 = a0 + sgn * sweep
    if m == 24:
        ex, ey = sx, sy
    else:
        ex, ey = cx + rad * math.cos(a1), cy + rad * math.sin(a1)
    return cx, cy, sweep, sgn, ex, ey


def check_ij(arc):
    """Returns (nsegments, violation message | None)."""
    H.reset_pkg_state()      # every input starts from the package's import-time module state
    sx, sy, rad, a0, m, cw = arc
    cx, cy, sweep, sgn, ex, ey = arc_geometry(*arc)
    i, j = -rad * math.cos(a0), -rad * math.sin(a0)
    h = handlers()
    setpos(h, sx, sy)
    try:
        pts = list(h.planArc(ex, ey, i, j, cw))
        again = list(h.planArc(ex, ey, i, j, cw))
    except Exception as e:   # noqa
        return 0, "C16 planArc raised %s: %s" % (type(e).__name__, e)
    if again != pts:
        # the samples are a function of the arc: planning the same arc a second time in the same run (a file repeats
        # its arcs layer after layer) must give the same points
        return 0, ("C16 the same arc planned twice from the same position gives %d values the first time and %d the "
                   "second (%s)" % (len(pts), len(again), "a prefix of them equal" if again[:len(pts)] == pts else "different"))
    if len(pts) < 2 or len(pts) % 2:
        return 0, "C16 planArc returned %d values" % len(pts)
    P = [(pts[q], pts[q + 1]) for q in range(0, len(pts), 2)]
    N = len(P)
    r0 = math.hypot(i, j)
    if P[-1] != (ex, ey):
        return N, "C16 last sample %r is not the commanded end point %r" % (P[-1], (ex, ey))
    # the samples must cover the commanded sweep in steps of at most one length unit *along the arc*: the number
    # of segments is at least the arc length (the modulo-2pi angle test below cannot see a full circle that
    # collapsed into a single zero-length segment)
    need = math.ceil(sweep * r0 - 1e-6)
    if N < need:
        return N, ("C16 arc of length %.4f (radius %r, sweep %.4f rad) is sampled with %d segment(s); at most one "
                   "length unit apart needs at least %d" % (sweep * r0, r0, sweep, N, need))
    tol = max(1e-9, 1e-7 * rad)
    prev = (sx, sy)
    for idx, p in enumerate(P):
        d = math.hypot(p[0] - cx, p[1] - cy)
        if abs(d - r0) > tol:
            return N, "C16 sample %d is off the circle: distance %r from the centre, radius %r" % (idx, d, r0)
        ang = math.atan2(p[1] - cy, p[0] - cx)
        expa = a0 + sgn * sweep * (idx + 1) / N
        da = (ang - expa + math.pi) % TWO_PI - math.pi
        if abs(da) > 1e-7:
            return N, ("C16 sample %d of %d is at angle %r, equal steps in the commanded direction over the "
                       "commanded sweep put it at %r" % (idx, N, ang, expa))
        ch = math.hypot(p[0] - prev[0], p[1] - prev[1])
        if ch > 1 + 1e-9:
            return N, "C16 samples %d and %d are %r apart (more than one length unit)" % (idx - 1, idx, ch)
        prev = p
    return N, None


def chords(quick):
    rng = range(-8, 9, 4) if quick else range(-8, 9, 2)
    pts = [(float(x), float(y)) for x in rng for y in rng]
    for a in pts[::3] if quick else pts[::2]:
        for b in pts:
            if a == b:
                continue
            d = math.hypot(b[0] - a[0], b[1] - a[1])
            for mag in (d / 2, d / 2 + 1e-6, d, 500.0):
                for sign in (1, -1):
                    for cw in (True, False):
                        yield (a, b, mag * sign, cw)


def r_reference(a, b, r, cw):
    dx, dy = b[0] - a[0], b[1] - a[1]
    d = math.hypot(dx, dy)
    hh = math.sqrt(max(0.0, r * r - d * d / 4))
    e = -1 if (cw ^ (r < 0)) else 1
    return (a[0] + b[0]) / 2 + e * hh * (-dy / d), (a[1] + b[1]) / 2 + e * hh * (dx / d)


def mistyped(a, b, r, cw):
    """The centre the known-finding formula (sy = -dx/d instead of +dx/d) would produce."""
    dx, dy = b[0] - a[0], b[1] - a[1]
    d = math.hypot(dx, dy)
    hh = math.sqrt(max(0.0, r * r - d * d / 4))
    e = -1 if (cw ^ (r < 0)) else 1
    return (a[0] + b[0]) / 2 + e * hh * (-dy / d), (a[1] + b[1]) / 2 + e * hh * (-dx / d)


def check_r(ch):
    H.reset_pkg_state()      # every input starts from the package's import-time module state
    a, b, r, cw = ch
    h = handlers()
    setpos(h, a[0], a[1])
    try:
        i, j = h.computeArcCenterOffsets(b[0], b[1], r, cw)
    except Exception as e:   # noqa
        return "C16 computeArcCenterOffsets raised %s: %s" % (type(e).__name__, e), None
    cx, cy = a[0] + i, a[1] + j
    da = math.hypot(cx - a[0], cy - a[1])
    db = math.hypot(cx - b[0], cy - b[1])
    tol = 1e-6 * max(1.0, abs(r))
    rx, ry = r_reference(a, b, r, cw)
    if abs(da - abs(r)) > tol or abs(db - abs(r)) > tol:
        msg = ("C16 R form: centre (%r, %r) for start %r end %r R=%r is at distance %r from the start and %r from the "
               "end, expected |R| from both" % (cx, cy, a, b, r, da, db))
    elif math.hypot(cx - rx, cy - ry) > tol:
        msg = ("C16 R form: centre (%r, %r) for start %r end %r R=%r %s is on the wrong side of the chord "
               "(RS274: (%r, %r))" % (cx, cy, a, b, r, "G2" if cw else "G3", rx, ry))
    else:
        return None, None
    mx, my = mistyped(a, b, r, cw)
    is_d2 = math.hypot(cx - mx, cy - my) <= tol
    return msg, is_d2


# ---- end-to-end through the hook
_W = {}


def e2e_world():
    import os
    if os.getpid() not in _W:
        _W[os.getpid()] = World(dict(prop="C16", monitors=(), regions=[], key_depth=False)).snapshot()
    return _W[os.getpid()]


E2E_CFG = dict(prop="C16", monitors=(), regions=[], key_depth=False,
               geo={})


DECIMALS = [12]


def num(v):
    """Plain decimal text of a float (never an exponent), DECIMALS[0] decimals."""
    t = ("%.*f" % (DECIMALS[0], v)).rstrip("0").rstrip(".")
    return "0" if t in ("-0", "") else t


def check_e2e(arc, frac):
    """Arc from its start through the real hook with a radius-1 disc centred on the true arc point at
    fraction frac of the sweep: must be suppressed.  With the disc moved >= 3 mm off the circle: verbatim."""
    sx, sy, rad, a0, m, cw = arc[:6]
    cx, cy, sweep, sgn, ex, ey = arc_geometry(*arc[:6])
    if arc[6:] and arc[6]:
        # exact axis-aligned centre
        k = round(a0 / (math.pi / 2))
        cx = sx - rad * (1, 0, -1, 0)[k % 4]
        cy = sy - rad * (0, 1, 0, -1)[k % 4]
        # sweeps of 90/180/270/360 degrees: the end point is an exact rotation of the start about the centre
        vx, vy = sx - cx, sy - cy
        for _ in range((m // 6) % 4):
            vx, vy = (vy, -vx) if cw else (-vy, vx)
        ex, ey = cx + vx, cy + vy
    ang = a0 + sgn * sweep * frac
    px, py = cx + rad * math.cos(ang), cy + rad * math.sin(ang)
    res = []
    # third variant: the same crossing arc issued while the filament is retracted (the verdict on an arc does not
    # depend on the retraction state)
    for hit, retracted in ((True, False), (False, False), (True, True)):
        if hit:
            gx, gy = px, py
        else:
            gx, gy = cx + (rad + 3.5) * math.cos(ang), cy + (rad + 3.5) * math.sin(ang)
        cfg = dict(E2E_CFG, geo={"probe": dict(type="CircularRegion", cx=gx, cy=gy, r=1.0)})
        w = World.restore(e2e_world(), cfg)
        w.step(("ADD", "probe", "p"))
        w.step(("RAW", "G0 X%s Y%s" % (num(sx), num(sy))))
        if retracted:
            w.step(("RAW", "G1 E-1 F1800"))
        i, j = cx - sx, cy - sy
        if arc[6:] and arc[6]:
            # axis-aligned centre: the zero offset word is left out (a missing I/J word means 0)
            ij = " ".join(w for w in ("I" + num(i) if i else "", "J" + num(j) if j else "") if w)
            cmd = "%s X%s Y%s %s" % ("G2" if cw else "G3", num(ex), num(ey), ij)
        else:
            cmd = "%s X%s Y%s I%s J%s" % ("G2" if cw else "G3", num(ex), num(ey), num(i), num(j))
        st = w.step(("RAW", cmd))
        f = st.feeds[0]
        if hit and (cmd in f.fwd if retracted else f.fwd):
            return ("C16 arc %r from (%r, %r)%s passes through the centre of a radius-1 region at (%r, %r) but was "
                    "forwarded: %r" % (cmd, sx, sy, " (issued after the retraction G1 E-1)" if retracted else "",
                                       gx, gy, f.result))
        if not hit and f.fwd != [cmd]:
            return ("C16 arc %r from (%r, %r) stays 2.5 mm clear of the only region (disc r=1 at (%r, %r)) but was "
                    "not forwarded verbatim: %r" % (cmd, sx, sy, gx, gy, f.result))
    return None


def check_repeat(rad, first_inside):
    """The same arc text (a full circle given by I only) issued at two places in one print: the verdict depends
    on where the tool is, not on the text."""
    cfg = dict(E2E_CFG, geo={"probe": dict(type="RectangularRegion", x1=40, y1=30, x2=60, y2=50)})
    w = World.restore(e2e_world(), cfg)
    w.step(("ADD", "probe", "p"))
    inside_start = (40 - rad, 42.0)          # the circle around (40, 42) reaches rad into the region
    clear_start = (10.0, 10.0)
    order = [inside_start, clear_start] if first_inside else [clear_start, inside_start]
    cmd = "G3 I%s" % num(rad)
    for k, (sx, sy) in enumerate(order):
        w.step(("RAW", "G0 X%s Y%s" % (num(sx), num(sy))))
        f = w.step(("RAW", cmd)).feeds[0]
        hits = (sx, sy) == inside_start
        if hits and f.cmd in f.fwd:
            return ("C16 full circle %r issued at (%s, %s) reaches %s into the region but was forwarded (the same text was "
                    "%s before at (%s, %s))" % (cmd, sx, sy, rad, "forwarded" if k else "not issued", order[0][0], order[0][1]))
        if not hits and f.fwd != [cmd] and not f.closing:
            return ("C16 full circle %r issued at (%s, %s) is clear of the region but was not forwarded verbatim: %r"
                    % (cmd, sx, sy, f.result))
    return None


def _work(arg):
    kind, quick, lo, hi = arg
    out = dict(n=0, multi=0, viol=[], d2=0)
    if kind == "ij":
        for idx, arc in enumerate(ij_arcs(quick)):
            if idx < lo or idx >= hi:
                continue
            out["n"] += 1
            n, msg = check_ij(arc)
            if n > 1:
                out["multi"] += 1
            if msg and len(out["viol"]) < 3:
                out["viol"].append(dict(msg=msg, input=dict(kind="ij", arc=list(arc)), sig=msg[:40]))
    elif kind == "r":
        for idx, ch in enumerate(chords(quick)):
            if idx < lo or idx >= hi:
                continue
            out["n"] += 1
            out["multi"] += 1
            msg, is_d2 = check_r(ch)
            if msg:
                if is_d2:
                    out["d2"] += 1
                if len(out["viol"]) < 3 or (not is_d2 and len(out["viol"]) < 6):
                    out["viol"].append(dict(msg=msg, input=dict(kind="r", chord=[list(ch[0]), list(ch[1]), ch[2], ch[3]]),
                                            sig="R-form D2" if is_d2 else "R-form other", d2=is_d2))
    elif kind == "e2e-repeat":
        for rad in (2.5, 5.0, 10.0):
            for first_inside in (False, True):
                out["n"] += 1
                out["multi"] += 1
                msg = check_repeat(rad, first_inside)
                if msg and len(out["viol"]) < 3:
                    out["viol"].append(dict(msg=msg, input=dict(kind="repeat", rad=rad, first_inside=first_inside),
                                            sig=msg[:30]))
    elif kind == "e2e-aligned":
        n = 0
        for (sx, sy) in STARTS:
            for rad in (2.5, 10, 50):
                for k in range(4):
                    for m in (6, 12, 18, 24):
                        for cw in (True, False):
                            n += 1
                            if n - 1 < lo or n - 1 >= hi:
                                continue
                            arc = (sx, sy, rad, k * math.pi / 2, m, cw, True)
                            out["n"] += 1
                            out["multi"] += 1
                            msg = check_e2e(arc, 0.5)
                            if msg and len(out["viol"]) < 3:
                                out["viol"].append(dict(msg=msg, input=dict(kind="e2e", arc=list(arc), frac=0.5), sig=msg[:30]))
    else:
        for idx, arc in enumerate(ij_arcs(quick)):
            if idx < lo or idx >= hi or idx % (9 if quick else 4):
                continue
            if arc[2] < 2.5 or arc[4] < 3:
                continue                      # the end-to-end claim needs an arc longer than the sampling resolution
            for frac in (0.5, 0.31):
                out["n"] += 1
                out["multi"] += 1
                # every other arc is written with three decimals only (slicer output): the end point is then up to
                # 0.7 micrometres off the circle, which must not change the verdict
                dec = 3 if (idx // (9 if quick else 4)) % 2 else 12
                DECIMALS[0] = dec
                msg = check_e2e(arc, frac)
                DECIMALS[0] = 12
                if msg and len(out["viol"]) < 3:
                    out["viol"].append(dict(msg=msg, input=dict(kind="e2e", arc=list(arc), frac=frac, decimals=dec),
                                            sig=msg[:30]))
    return out


def prepare(ctx):
    global _FI
    _FI = engine.register_enum(_work)


def enumerate_inputs(ctx):
    q = ctx.quick
    n_ij = sum(1 for _ in ij_arcs(q))
    n_r = sum(1 for _ in chords(q))
    tasks = []
    for kind, n in (("ij", n_ij), ("r", n_r), ("e2e", n_ij)):
        step = max(1, n // 64)
        tasks += [(kind, q, i, i + step) for i in range(0, n, step)]
    tasks += [("e2e-aligned", q, i, i + 24) for i in range(0, 288, 24)]
    tasks += [("e2e-repeat", q, 0, 0)]
    tot = {"ij": [0, 0], "r": [0, 0], "e2e": [0, 0], "e2e-aligned": [0, 0], "e2e-repeat": [0, 0]}
    viol = []
    d2 = 0
    for t, r in zip(tasks, _ordered(tasks)):
        tot[t[0]][0] += r["n"]
        tot[t[0]][1] += r["multi"]
        d2 += r["d2"]
        viol.extend(r["viol"])
    seen = set()
    uniq = []
    for v in sorted(viol, key=lambda v: (v["sig"], repr(v["input"]))):
        if v["sig"] not in seen:
            seen.add(v["sig"])
            v["part"] = "c16-" + v["input"]["kind"]
            uniq.append(v)
    a = next(iter(ij_arcs(q)))
    return dict(evaluations=sum(v[0] for v in tot.values()), distinct_nontrivial=sum(v[1] for v in tot.values()),
                exhaustive=True,
                samples=[dict(form="I/J", start=[a[0], a[1]], radius=a[2], start_angle=a[3], sweep_twelfths_of_pi=a[4], cw=a[5]),
                         dict(form="R", chord=list(next(iter(chords(q)))))],
                parts=[dict(name="c16-ij", arcs=tot["ij"][0], multi_segment=tot["ij"][1]),
                       dict(name="c16-r", chords=tot["r"][0], r_form_d2_signature=d2),
                       dict(name="c16-e2e", hook_runs=tot["e2e"][0], variants_per_run="disc on the arc / disc 3.5 mm off the arc / disc on the arc with the filament retracted", axis_aligned_with_omitted_zero_word=tot["e2e-aligned"][0],
                            same_text_at_two_places=tot["e2e-repeat"][0])],
                violations=uniq)


def _ordered(tasks):
    P = engine.pool()
    for status, payload in P.imap(engine._enum_call, [(_FI, t) for t in tasks]):
        if status != "ok":
            raise engine.HarnessError(payload)
        yield payload


def replay_input(payload):
    i = payload["input"]
    if i["kind"] == "ij":
        return check_ij(tuple(i["arc"]))[1]
    if i["kind"] == "r":
        c = i["chord"]
        return check_r((tuple(c[0]), tuple(c[1]), c[2], c[3]))[0]
    if i["kind"] == "repeat":
        return check_repeat(i["rad"], i["first_inside"])
    DECIMALS[0] = i.get("decimals", 12)
    try:
        return check_e2e(tuple(i["arc"]), i["frac"])
    finally:
        DECIMALS[0] = 12


from .. import findings as _findings


@_findings.predicate("D2")
def _is_d2(finding, payload):
    """The counterexample is an instance of D2 iff it is an R-form centre that equals, for this very input,
    the value of the mistyped perpendicular (sy = -dx/d instead of +dx/d)."""
    i = payload.get("input", {})
    if i.get("kind") != "r":
        return False
    c = i["chord"]
    msg, is_d2 = check_r((tuple(c[0]), tuple(c[1]), c[2], c[3]))
    return bool(msg) and bool(is_d2)
