"""C18 -- the parser is lossless and its normalisation is stable (E2: all strings over a 16-symbol alphabet)."""
import itertools

from .. import engine
from .. import harness as H

ALPHA = ["G", "N", "X", "T", "m", "1", "0", "-", ".", " ", "*", ";", "\\", "\r", "\n", "é"]
RULE = ("every string over the 16 symbols {G N X T m 1 0 - . space * ; backslash CR LF e-acute} up to the stated "
        "length, and every concatenation of up to three lines from a catalogue of 40 interesting lines "
        "(checksummed, commented, blank, CRLF/CR/LF/unterminated); each is parsed line by line with "
        "GcodeParser.parseLines; non-trivial = inputs in which at least one line parsed as a G/M/T command "
        "(normalisation and checksum obligations apply); inputs are distinct by construction")
ASSUMPTIONS = ["a fresh parser per input; within an input one parser instance handles all lines (parseLines)"]

LINES = ["G1 X1", "G1 X1 Y2 ; c", "N1 G0 X1*23", "N5 G1 X1*", " N5 G1 X1", "  G28", "G1.0 X5", "G38.2 Z5", "M117 hi there",
         "M117 2 \\* 2", "G1 X1 *12 *83", "T1", "t 0", "g1 x5", "G 1 X 5", "N3 T2*5", ";only", " ; c", "", "   ",
         "@ExcludeRegion disable", "G1 X1;c;d", "G1 X1 \\; y", "G1 E1e-05", "G92 E0 *", "N10", "N10 X5", "G", "G1*",
         "*5", "G1 X1 Y", "M204 S500 T", "G1X1Y2", "M117", "G0  X1   Y2  ", "N07 G01 X1*42", "G1 X.5 Y-.5", "G1 X5.", "X1", "G1 é"]
EOLS = ["\n", "\r\n", "\r", ""]


def check(s, p, q):
    """Returns (has_command, violation message | None)."""
    H.reset_pkg_state()      # every input starts from the package's import-time module state
    has = False
    try:
        out = []
        cnt = 0
        for line in p.parseLines(s):
            cnt += 1
            if cnt > len(s) + 2:
                return has, "C18 parseLines does not terminate on %r" % (s,)
            out.append(line.fullText)
            if line.gcode is not None:
                has = True
                cs = line.commandString
                g, sc, items = line.gcode, line.subCode, list(line.parameterItems())
                ln = line.lineNumber
                full = line.fullText
                q.parse(cs)
                got = (q.gcode, q.subCode, list(q.parameterItems()), q.commandString)
                if got != (g, sc, items, cs):
                    return has, ("C18 normalisation is not stable for %r: command string %r re-parses as %r, "
                                 "first parse gave %r" % (s, cs, got, (g, sc, items, cs)))
                q.parse(full)
                if ln is None:
                    q.lineNumber = 7
                txt = q.stringify(includeComment=False, includeEol=False)
                try:
                    H.GcodeParser().parse(txt).validate()
                except ValueError as e:
                    return has, ("C18 line %r rendered with line number and checksum as %r does not validate: %s"
                                 % (full, txt, e))
                # independent reading of the rendered line, as the firmware does it: XOR of the bytes from the
                # first non-blank character up to the last '*' must equal the number after it
                star = txt.rfind("*")
                body = txt[:star].lstrip(" ")
                x = 0
                for b in body.encode("utf-8"):
                    x ^= b
                if star < 0 or not txt[star + 1:].strip().isdigit() or int(txt[star + 1:]) != x:
                    return has, ("C18 line %r rendered as %r: the checksum after '*' is not the XOR (%d) of the bytes "
                                 "before it" % (full, txt, x))
        if "".join(out) != s:
            return has, "C18 concatenated fullText %r differs from the input %r" % ("".join(out), s)
        # the same instance, the same text once more: parsing is a function of the text
        again = [line.fullText for line in p.parseLines(s)]
        if again != out:
            return has, ("C18 parsing %r a second time with the same parser instance gives %r, the first time %r"
                         % (s, again, out))
        for txt in out:
            first = p.parse(txt)
            g1, cs1 = first.gcode, first.commandString
            if g1 is not None:
                second = p.parse(cs1)
                if (second.gcode, second.commandString) != (g1, cs1):
                    return has, ("C18 the parser instance that produced the command string %r re-parses it as %r"
                                 % (cs1, (second.gcode, second.commandString)))
    except Exception as e:   # noqa
        return has, "C18 parser raised %s on %r: %s" % (type(e).__name__, s, e)
    return has, None


def _work(arg):
    kind, a, b = arg
    p, q = H.GcodeParser(), H.GcodeParser()
    out = dict(n=0, cmds=0, viol=[])
    sigs = set()

    def one(s):
        out["n"] += 1
        # fresh parser objects per input: every verdict is a function of the input alone (replayable)
        has, msg = check(s, H.GcodeParser(), H.GcodeParser())
        if has:
            out["cmds"] += 1
        if msg:
            sig = " ".join(msg.split()[:3])
            if sig not in sigs and len(out["viol"]) < 4:
                sigs.add(sig)
                out["viol"].append(dict(msg=msg, input=dict(text=s), sig=sig))
    if kind == "strings":
        prefix, length = a, b
        if length < len(prefix):
            return out
        if length == len(prefix):
            one("".join(prefix))
            return out
        for tup in itertools.product(ALPHA, repeat=length - len(prefix)):
            one("".join(prefix) + "".join(tup))
    else:
        first, nlines = a, b
        for rest in itertools.product(range(len(LINES)), repeat=nlines - 1):
            for eol in EOLS[:3]:
                for last_terminated in (True, False):
                    idx = (first,) + rest
                    s = eol.join(LINES[i] for i in idx) + (eol if last_terminated else "")
                    one(s)
    return out


def prepare(ctx):
    global _FI
    _FI = engine.register_enum(_work)


def enumerate_inputs(ctx):
    L = 5 if ctx.quick else 6
    NL = 3
    tasks = []
    for ln in range(0, L + 1):
        if ln <= 2:
            tasks.append(("strings", (), ln))
        else:
            for pre in itertools.product(ALPHA, repeat=2):
                tasks.append(("strings", pre, ln))
    for nl in range(1, NL + 1):
        for first in range(len(LINES)):
            tasks.append(("files", first, nl))
    tot = dict(n=0, cmds=0)
    nfiles = 0
    viol = []
    for t, r in zip(tasks, _ordered(tasks)):
        tot["n"] += r["n"]
        tot["cmds"] += r["cmds"]
        if t[0] == "files":
            nfiles += r["n"]
        viol.extend(r["viol"])
    seen = set()
    uniq = []
    for v in sorted(viol, key=lambda v: (len(v["input"]["text"]), v["input"]["text"])):
        if v["sig"] not in seen:
            seen.add(v["sig"])
            v["part"] = "c18"
            uniq.append(v)
    return dict(evaluations=tot["n"], distinct_nontrivial=tot["cmds"], exhaustive=True,
                samples=[dict(text="N1 G0 X1*23\nG1 X2\n"), dict(text=" N5 G1 X1"), dict(text="G1.0X-.1;\\\r")],
                parts=[dict(name="c18-strings", alphabet=len(ALPHA), max_length=L, strings=tot["n"] - nfiles),
                       dict(name="c18-files", catalogue_lines=len(LINES), max_lines=NL, files=nfiles)],
                violations=uniq)


def _ordered(tasks):
    P = engine.pool()
    for status, payload in P.imap(engine._enum_call, [(_FI, t) for t in tasks], chunksize=4):
        if status != "ok":
            raise engine.HarnessError(payload)
        yield payload


def replay_input(payload):
    p, q = H.GcodeParser(), H.GcodeParser()
    return check(payload["input"]["text"], p, q)[1]
