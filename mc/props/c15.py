"""C15 -- a print that ends while excluding is cleaned up exactly once (E1, PluginWorld)."""
from ..engine import Scenario
from ..world import World

NONTRIVIAL = {"cleanup-contributed", "nothing-contributed"}
RULE = ("all histories (breadth-first, to fix-point) of programs ending inside or outside an episode (with "
        "deferred codes, Z changes and owed recoveries) interleaved with script-hook invocations "
        "{gcode/afterPrintDone, gcode/beforePrintStarted, file/afterPrintDone}, PrintDone/PrintCancelled and a "
        "new print; non-trivial = first reached by a script-hook call (contributing or not)")
ASSUMPTIONS = ["the contributed prefix is interpreted by reference printer A line by line, as OctoPrint sends it",
               "re-positioning into the region at print end is the documented behaviour (printer follows the file)"]


def scenarios(tier):
    q = tier == "quick"
    program = [("TRAVEL", "I1"), ("TRAVEL", "O2"), ("PRINT", "I2"), ("PRINT", "O1"), ("RETRACT",), ("RECOVER",),
               ("ZMOVE", 2), ("RAW", "M117 x"), ("RAW", "M204 S5")]
    hooks = [("SCRIPT", "gcode", "afterPrintDone"), ("SCRIPT", "gcode", "beforePrintStarted"),
             ("SCRIPT", "file", "afterPrintDone"), ("SCRIPT", "gcode", "afterPrintPaused"),
             ("SCRIPT", "gcode", "afterPrintCancelled")]
    ends = [("EV", "PRINT_DONE"), ("EV", "PRINT_CANCELLED"), ("NEWPRINT",)]
    cfg = dict(prop="C15", monitors=("c15", "c06"), c06_scope="script", regions=["R"], emax=1, exit="M400\n", key_depth=False)
    cap = 150000 if q else 3000000
    if q:
        out = [Scenario("c15-programs", World, cfg, program + hooks[:1] + ends, max_states=cap,
                        note="programs ending inside/outside an episode with deferred codes, Z changes, owed recoveries"),
               Scenario("c15-hook-sequences", World, dict(cfg, enter="M300 S1\n"),
                        [("TRAVEL", "I1"), ("TRAVEL", "O2"), ("PRINT", "I2"), ("RAW", "M117 x"), ("RAW", "G28 X"), ("RAW", "M84"),
                         ("RAW", "M104 S0")]
                        + hooks + ends, max_states=cap,
                        note="all sequences of script-hook invocations (near-miss script names, other types), a partial "
                             "homing inside the episode, end events")]
    else:
        out = [Scenario("c15-print-end", World, dict(cfg, enter="M300 S1\n"), program + [("RAW", "G28 X"), ("TRAVELZ", "I1", 2),
                                                                 ("AT", "ExcludeRegion", "disable"), ("EV", "PRINT_PAUSED"),
                                                                 ("SCRIPT", "gcode", "afterPrintResumed")] + hooks + ends,
                        max_states=cap)]
    # the region is deleted (shrinking allowed) while the episode is open: the episode still has to be cleaned up
    out.append(Scenario("c15-region-deleted", World, dict(cfg, shrink=True),
                        [("TRAVEL", "I1"), ("TRAVEL", "O2"), ("PRINT", "I2"), ("RAW", "M117 x"),
                         ("API", "del", "r", None, False), ("SCRIPT", "gcode", "afterPrintDone"),
                         ("SCRIPT", "gcode", "afterPrintPaused"), ("EV", "PRINT_DONE")],
                        max_states=cap))
    # every way a job can stop (ninth wave, w9c15: one of the five end events no longer ends the job) and the events that
    # must not stop it, around an open episode
    out.append(Scenario("c15-end-events", World, cfg,
                        [("TRAVEL", "I1"), ("TRAVEL", "O2"), ("PRINT", "I2"), ("SCRIPT", "gcode", "afterPrintDone"),
                         ("EV", "PRINT_DONE"), ("EV", "PRINT_FAILED"), ("EV", "PRINT_CANCELLING"), ("EV", "PRINT_CANCELLED"),
                         ("EV", "ERROR"), ("EV", "PRINT_PAUSED"), ("EV", "PRINT_RESUMED"), ("NEWPRINT",)],
                        max_states=cap, note="each of the five job-ending events, and pause/resume, with an episode open "
                                             "or closed, followed by the hook"))
    return out
