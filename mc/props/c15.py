"""C15 -- a print that ends while excluding is cleaned up exactly once (E1, PluginWorld)."""
from ..engine import Scenario
from ..world import World

NONTRIVIAL = {"cleanup-contributed", "nothing-contributed"}
RULE = ("all histories (breadth-first, to fix-point) of programs ending inside or outside an episode (with "
        "deferred codes, Z changes and owed recoveries) interleaved with script-hook invocations "
        "{gcode/afterPrintDone, gcode/beforePrintStarted, file/afterPrintDone}, PrintDone/PrintCancelled and a "
        "new print; non-trivial = first reached by a script-hook call (contributing or not)")
ASSUMPTIONS = ["the contributed prefix is interpreted by reference printer A line by line, as OctoPrint sends it",
               "re-positioning into the region at print end is the documented behaviour (printer follows the file)"]


def scenarios(tier):
    q = tier == "quick"
    menu = [("TRAVEL", "I1"), ("TRAVEL", "O2"), ("PRINT", "I2"), ("PRINT", "O1"), ("RETRACT",), ("RECOVER",),
            ("ZMOVE", 2), ("RAW", "M117 x"), ("RAW", "M204 S5"),
            ("SCRIPT", "gcode", "afterPrintDone"), ("SCRIPT", "gcode", "beforePrintStarted"),
            ("SCRIPT", "file", "afterPrintDone"),
            ("EV", "PRINT_DONE"), ("EV", "PRINT_CANCELLED"), ("NEWPRINT",)]
    if not q:
        menu += [("TRAVELZ", "I1", 2), ("AT", "ExcludeRegion", "disable"), ("EV", "PRINT_PAUSED")]
    cfg = dict(prop="C15", monitors=("c15",), regions=["R"], emax=1, exit="M400\n", key_depth=False)
    return [Scenario("c15-print-end", World, cfg, menu, max_states=150000 if q else 3000000)]
