"""Reference printer: a Marlin-like interpreter over exact rationals.

Two instances are used by the worlds: A executes what the filter forwards, B executes the file.
Only the dialect the properties name is interpreted; everything else is a no-op.
"""
from fractions import Fraction as Fr
from .rs274 import read, last_values

INCH = Fr(254, 10)


class Printer(object):
    __slots__ = ("p", "shift", "abs", "eabs", "unit", "g90e", "E", "fil", "hwm", "fw", "F",
                 "fw_errors", "last_fw_cmd")

    def __init__(self, g90e=False):
        self.p = {"X": None, "Y": None, "Z": None}       # physical mm
        self.shift = {"X": Fr(0), "Y": Fr(0), "Z": Fr(0)}  # G92 shift: logical = physical - shift
        self.abs = True
        self.eabs = True
        self.unit = Fr(1)
        self.g90e = g90e
        self.E = Fr(0)          # logical extruder register, mm
        self.fil = Fr(0)        # cumulative physical filament, mm
        self.hwm = Fr(0)        # high-water mark of fil;  retraction depth = hwm - fil
        self.fw = False         # firmware-retracted
        self.F = None
        self.fw_errors = 0      # G10 while retracted / G11 while not
        self.last_fw_cmd = None

    def copy(self):
        o = Printer.__new__(Printer)
        o.p = dict(self.p)
        o.shift = dict(self.shift)
        for k in ("abs", "eabs", "unit", "g90e", "E", "fil", "hwm", "fw", "F", "fw_errors", "last_fw_cmd"):
            setattr(o, k, getattr(self, k))
        return o

    def __getstate__(self):
        return {k: getattr(self, k) for k in self.__slots__}

    def __setstate__(self, d):
        for k, v in d.items():
            setattr(self, k, v)

    def key(self, depth=True):
        """Canonical state.  depth=False leaves out the retraction depth (hwm - fil) for monitors that
        cannot observe it (their verdicts depend on increments of fil only)."""
        return (tuple(sorted(self.p.items())), tuple(sorted(self.shift.items())), self.abs, self.eabs,
                self.unit, self.E, (self.hwm - self.fil) if depth else None, self.fw, self.F, self.fw_errors)

    def depth(self):
        return self.hwm - self.fil

    def xy(self):
        return (self.p["X"], self.p["Y"])

    def xyz(self):
        return (self.p["X"], self.p["Y"], self.p["Z"])

    def logical(self, ax):
        return (self.p[ax] - self.shift[ax]) / self.unit

    def execute(self, cmd):
        code, sub, words, junk = read(cmd)
        if code is None:
            return None
        w = last_values(words)
        present = set(l for l, _ in words)
        if code in ("G2", "G3"):
            # an arc without a usable centre is rejected by the firmware as a whole (nothing moves, nothing extrudes)
            if "R" in w:
                if w["R"] == 0:
                    return code
            elif not w.get("I") and not w.get("J"):
                return code
        if code in ("G0", "G1", "G2", "G3"):
            for ax in "XYZ":
                if ax in w:
                    v = w[ax] * self.unit
                    self.p[ax] = (v + self.shift[ax]) if self.abs else (self.p[ax] + v)
            if "E" in w:
                v = w["E"] * self.unit
                newE = v if self.eabs else self.E + v
                self.fil += newE - self.E
                self.E = newE
                if self.fil > self.hwm:
                    self.hwm = self.fil
            if "F" in w and w["F"] > 0:
                self.F = w["F"] * self.unit
        elif code == "G10":
            if "P" in present or "L" in present:
                return code
            if self.fw:
                self.fw_errors += 1
            self.fw = True
            self.last_fw_cmd = cmd
        elif code == "G11":
            if not self.fw:
                self.fw_errors += 1
            self.fw = False
            self.last_fw_cmd = cmd
        elif code == "G20":
            self.unit = INCH
        elif code == "G21":
            self.unit = Fr(1)
        elif code == "G28":
            axes = [a for a in "XYZ" if a in present] or list("XYZ")
            for a in axes:
                self.p[a] = Fr(0)
                self.shift[a] = Fr(0)
        elif code == "G90":
            self.abs = True
            if self.g90e:
                self.eabs = True
        elif code == "G91":
            self.abs = False
            if self.g90e:
                self.eabs = False
        elif code == "G92":
            for ax in "XYZ":
                if ax in w:
                    self.shift[ax] = self.p[ax] - w[ax] * self.unit
            if "E" in w:
                self.E = w["E"] * self.unit
        return code
