"""Independent splitter of one G-code file line (string methods only, no regular expressions):
leading blanks, optional N<digits>, command text, optional *checksum, blanks, optional ;comment, EOL."""


def split(line):
    eol = ""
    for e in ("\r\n", "\n", "\r"):
        if line.endswith(e):
            eol = e
            line = line[:-len(e)]
            break
    comment = None
    semi = line.find(";")
    if semi >= 0:
        comment = line[semi:]
        line = line[:semi]
    body = line
    lead = body[:len(body) - len(body.lstrip(" "))]
    body = body.strip(" ")
    checksum = None
    star = body.find("*")
    if star >= 0:
        checksum = body[star + 1:].strip(" ")
        body = body[:star].rstrip(" ")
    number = None
    if body[:1] in ("N", "n") and body[1:2].isdigit():
        i = 1
        while i < len(body) and body[i].isdigit():
            i += 1
        number = int(body[1:i])
        body = body[i:].lstrip(" ")
    return dict(lead=lead, number=number, command=body, checksum=checksum, comment=comment, eol=eol)


def is_gcode(command):
    if len(command) < 2 or command[0] not in "GMT":
        return False
    return command[1].isdigit()
