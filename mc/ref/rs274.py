"""Reference reader for one G-code command, in the way RS274-style firmware (Marlin) reads it.

Hand-written character scanner; shares no regular expression with the plugin's GcodeParser.
A number is: optional sign, digits, optional '.', digits -- *no exponent*.  A number stops at the first
character that cannot continue it, so 'E1e-05' reads as E=1 followed by a valueless E word and junk: this
exponent blindness is what makes exponent notation in generated commands dangerous (C07).
"""
from fractions import Fraction as Fr


def number(txt):
    """Exact value of a plain decimal spelling such as '-5', '+5', '5.', '.5', '-.5', '05.50'."""
    sign = 1
    if txt and txt[0] in "+-":
        if txt[0] == "-":
            sign = -1
        txt = txt[1:]
    if "." in txt:
        ip, fp = txt.split(".", 1)
    else:
        ip, fp = txt, ""
    if not (ip or fp):
        raise ValueError(txt)
    val = Fr(int(ip or "0")) + (Fr(int(fp), 10 ** len(fp)) if fp else 0)
    return sign * val


def read(cmd):
    """Return (code, sub, words, junk).

    code  : 'G1', 'M117', 'T0' or None when the text does not start with a command word
    sub   : sub-code int or None
    words : [(LETTER, Fraction | None)] in order of appearance
    junk  : True when characters were skipped that belong to no word
    """
    s = cmd.split(";", 1)[0]
    star = s.find("*")
    if star >= 0:
        s = s[:star]
    s = s.strip(" ")
    n = len(s)
    i = 0

    def skip():
        nonlocal i
        while i < n and s[i] == " ":
            i += 1

    skip()
    if i < n and s[i] in "Nn":                       # optional line number
        j = i + 1
        while j < n and s[j].isdigit():
            j += 1
        if j > i + 1:
            i = j
            skip()
    if i >= n or s[i].upper() not in "GMT":
        return (None, None, [], False)
    letter = s[i].upper()
    i += 1
    skip()
    j = i
    while i < n and s[i].isdigit():
        i += 1
    if j == i:
        return (None, None, [], False)
    code = letter + str(int(s[j:i]))
    sub = None
    if letter != "T" and i + 1 < n and s[i] == "." and s[i + 1].isdigit():
        i += 1
        j = i
        while i < n and s[i].isdigit():
            i += 1
        sub = int(s[j:i])
    words = []
    junk = False
    while True:
        skip()
        if i >= n:
            break
        c = s[i]
        if not (("a" <= c <= "z") or ("A" <= c <= "Z")):
            junk = True
            i += 1
            continue
        i += 1
        save = i
        skip()
        j = i
        if i < n and s[i] in "+-":
            i += 1
        while i < n and s[i].isdigit():
            i += 1
        if i < n and s[i] == ".":
            i += 1
            while i < n and s[i].isdigit():
                i += 1
        txt = s[j:i]
        # a number needs at least one digit, and (like the usual float grammar) digits after a dot
        # are optional only when digits precede it
        if any(ch.isdigit() for ch in txt):
            words.append((c.upper(), number(txt)))
        else:
            i = save
            words.append((c.upper(), None))
    return (code, sub, words, junk)


def last_values(words):
    """Letter -> last *valued* occurrence."""
    out = {}
    for letter, val in words:
        if val is not None:
            out[letter] = val
    return out
