"""Exact (rational) region geometry: closed rectangle / closed disc membership and containment."""
from fractions import Fraction as Fr


def F(v):
    return v if isinstance(v, Fr) else Fr(v)


def is_degenerate(g):
    """A region with a NaN or infinite parameter contains no point (every comparison with NaN is false)."""
    import math
    keys = ("x1", "y1", "x2", "y2") if g["type"] == "RectangularRegion" else ("cx", "cy", "r")
    return any(isinstance(g.get(k), float) and (math.isnan(g[k]) or math.isinf(g[k])) for k in keys)


def norm_rect(g):
    x1, x2 = sorted((F(g["x1"]), F(g["x2"])))
    y1, y2 = sorted((F(g["y1"]), F(g["y2"])))
    return x1, y1, x2, y2


def contains_point(g, x, y):
    """g is a dict in the plugin's API format (type RectangularRegion / CircularRegion)."""
    if is_degenerate(g):
        return False
    x, y = F(x), F(y)
    if g["type"] == "RectangularRegion":
        x1, y1, x2, y2 = norm_rect(g)
        return x1 <= x <= x2 and y1 <= y <= y2
    r = F(g["r"])
    if r < 0:
        return False
    return (x - F(g["cx"])) ** 2 + (y - F(g["cy"])) ** 2 <= r * r


def is_empty(g):
    return is_degenerate(g) or (g["type"] == "CircularRegion" and F(g["r"]) < 0)


def contains_region(outer, inner):
    """True iff every point of inner (closed set) is a point of outer (closed set)."""
    if is_empty(inner):
        return True
    if is_empty(outer):
        return False
    if inner["type"] == "RectangularRegion":
        x1, y1, x2, y2 = norm_rect(inner)
        # both shapes are convex: the rectangle is inside iff its four corners are
        return all(contains_point(outer, x, y) for x in (x1, x2) for y in (y1, y2))
    cx, cy, r = F(inner["cx"]), F(inner["cy"]), F(inner["r"])
    if outer["type"] == "RectangularRegion":
        x1, y1, x2, y2 = norm_rect(outer)
        return x1 <= cx - r and cx + r <= x2 and y1 <= cy - r and cy + r <= y2
    R = F(outer["r"])
    return R >= r and (cx - F(outer["cx"])) ** 2 + (cy - F(outer["cy"])) ** 2 <= (R - r) ** 2


def any_contains(regions, x, y):
    for g in regions:
        if contains_point(g, x, y):
            return True
    return False


def extreme_points(g):
    """A finite set of points of g that witnesses non-containment in any rectangle, plus samples."""
    if is_degenerate(g):
        return []
    if g["type"] == "RectangularRegion":
        x1, y1, x2, y2 = norm_rect(g)
        return [(x1, y1), (x1, y2), (x2, y1), (x2, y2), ((x1 + x2) / 2, (y1 + y2) / 2)]
    if is_empty(g):
        return []
    cx, cy, r = F(g["cx"]), F(g["cy"]), F(g["r"])
    pts = [(cx, cy), (cx - r, cy), (cx + r, cy), (cx, cy - r), (cx, cy + r)]
    # rational points on the circle from Pythagorean triples (3-4-5, 5-12-13, 8-15-17)
    for a, b, c in ((3, 4, 5), (5, 12, 13), (8, 15, 17)):
        for sx in (1, -1):
            for sy in (1, -1):
                pts.append((cx + sx * r * Fr(a, c), cy + sy * r * Fr(b, c)))
                pts.append((cx + sx * r * Fr(b, c), cy + sy * r * Fr(a, c)))
    return pts
