"""E1: explicit-state breadth-first exploration of the *implementation*.

A state is identified by the event history that reaches it; every expansion builds a fresh world
(fresh plugin object, fresh settings values, fresh reference printers), replays the history from
scratch, then applies every enabled event to a snapshot.  States are de-duplicated on a canonical key
(world.key(): implementation state by generic attribute walk + reference models + monitors).

Also hosts the chunked parallel map used by the E2 enumerators.
"""
import hashlib, multiprocessing, os, random, time, traceback


class Violation(Exception):
    """Raised by a monitor: the property does not hold on this transition."""

    def __init__(self, prop, msg, sig=None):
        Exception.__init__(self, msg)
        self.prop = prop
        self.msg = msg
        self.sig = sig or msg.split(":")[0]


class HarnessError(Exception):
    """The machinery itself is broken (divergent replay, unsound abstraction, reference model crash)."""


class Scenario(object):
    def __init__(self, name, world_cls, cfg, menu, max_depth=None, max_states=400000, finding=None,
                 note="", max_seconds=None):
        self.name = name
        self.world_cls = world_cls
        self.cfg = cfg
        self.menu = list(menu)
        self.max_depth = max_depth
        self.max_states = max_states
        self.finding = finding        # id of the known finding this scenario is dedicated to
        self.note = note
        self.max_seconds = max_seconds      # safety net only: wall-clock budget, checked between BFS levels
        self._init_snap = None
        self._init_pid = None

    def fresh(self, build=False):
        """A world in the scenario's initial state, made of fresh objects.  The initial state is built by
        the real initialisation path once per process and kept as a pickle; every later call unpickles
        that snapshot (new plugin/state/printer objects, nothing shared between worlds)."""
        if self.replay_mode():
            # the implementation keeps state that cannot be copied (functools.lru_cache contents): no snapshots, every
            # world is built by the real initialisation path after that state has been cleared
            self.world_cls.reset_process_state()
            return self.world_cls(self.cfg)
        if build or self._init_pid != os.getpid():
            w = self.world_cls(self.cfg)
            self._init_snap = w.snapshot()
            self._init_pid = os.getpid()
            return w
        return self.world_cls.restore(self._init_snap, self.cfg)


def _replay_mode(self):
    f = getattr(self.world_cls, "needs_replay", None)
    return bool(f and f())


Scenario.replay_mode = _replay_mode


class Result(object):
    def __init__(self, scn):
        self.scn = scn
        self.scenario = scn.name
        self.states = 1
        self.transitions = 0
        self.replayed = 0            # histories replayed from scratch on a fresh implementation
        self.depth_done = 0
        self.fixpoint = False
        self.cap_hit = None
        self.tags = {}               # tag -> number of transitions carrying it
        self.tag_states = {}         # tag -> number of distinct states first reached with it
        self.violations = []         # (history, ev_index, prop, msg, sig)
        self.sample_hists = []       # histories worth showing
        self.shadow_checked = 0
        self.wall = 0.0

    def summary(self):
        return dict(scenario=self.scenario, states=self.states, transitions=self.transitions,
                    depth_completed=self.depth_done, fixpoint=self.fixpoint, cap_hit=self.cap_hit,
                    abstraction_shadow_checks=self.shadow_checked, wall_s=round(self.wall, 2),
                    outcome_histogram=dict(sorted(self.tags.items())),
                    distinct_states_by_outcome=dict(sorted(self.tag_states.items())),
                    note=self.scn.note)


_SCENARIOS = []      # filled before the pool forks; workers index into it
_DEFAULT_BUDGET = [None]   # per-scenario wall-clock safety net (seconds), set by the runner per tier
_POOL = None


def register(scenarios):
    assert _POOL is None, "scenarios must be registered before the pool forks"
    base = len(_SCENARIOS)
    _SCENARIOS.extend(scenarios)
    return list(range(base, base + len(scenarios)))


def nproc():
    try:
        n = len(os.sched_getaffinity(0))
    except Exception:
        n = multiprocessing.cpu_count()
    return max(1, min(16, n))


def pool():
    """Fork the worker pool lazily, after all scenarios / enumerators have been registered."""
    global _POOL
    if _POOL is None:
        ctx = multiprocessing.get_context("fork")
        _POOL = ctx.Pool(nproc())
    return _POOL


def close_pool():
    global _POOL
    if _POOL is not None:
        _POOL.terminate()
        _POOL.join()
        _POOL = None


def _expand_one(scn, hist):
    w = scn.fresh()
    try:
        for ei in hist:
            w.step(scn.menu[ei])
    except Violation as v:
        raise HarnessError("divergent replay: prefix %r of scenario %s now violates: %s"
                           % (hist, scn.name, v.msg))
    replaying = scn.replay_mode()
    snap = None if replaying else w.snapshot()
    succ = []
    for ei in w.enabled(scn.menu):
        if replaying:
            w2 = scn.fresh()
            for e in hist:
                w2.step(scn.menu[e])
        else:
            w2 = scn.world_cls.restore(snap, scn.cfg)
        try:
            st = w2.step(scn.menu[ei])
        except Violation as v:
            succ.append((ei, None, (), (v.prop, v.msg, v.sig), b""))
            continue
        succ.append((ei, w2.key(), tuple(sorted(w2.tags(st))), None, w2.outdigest(st)))
    return succ


def _sig(succ):
    h = hashlib.blake2b(digest_size=12)
    for ei, key, tags, viol, od in sorted(succ, key=lambda s: s[0]):
        h.update(b"%d" % ei)
        h.update(key or b"V")
        h.update(od or b"")
    return h.digest()


def _expand(task):
    si, hists, pairs = task
    scn = _SCENARIOS[si]
    try:
        out = [(h, _expand_one(scn, h)) for h in hists]
        bad = []
        for rep, dup in pairs:
            a = _sig(_expand_one(scn, rep))
            if a != _sig(_expand_one(scn, dup)):
                # is the representative itself stable?  If expanding the *same* history twice gives different
                # successor keys, the implementation state contains values that differ from run to run (elapsed
                # times, object identities); that is not an abstraction error -- de-duplication is merely
                # ineffective for such states -- and the verdicts (behavioural monitors) do not depend on it
                # (several samples: run-dependent values of low resolution, e.g. elapsed times, collide now and then)
                if scn.replay_mode():
                    # state that cannot be read (lru_cache contents) is not in the key: merged states may differ; the
                    # exploration is then an under-approximation (violations found are real, each is replayed from scratch)
                    bad.append(("opaque", rep))
                elif any(a != _sig(_expand_one(scn, rep)) for _ in range(3)):
                    bad.append(("unstable", rep))
                else:
                    bad.append((rep, dup))
        return ("ok", out, len(pairs), bad)
    except HarnessError as e:
        return ("error", str(e), 0, [])
    except Exception:
        return ("error", "exception in worker (scenario %s):\n%s" % (scn.name, traceback.format_exc()), 0, [])


def explore(si, seed=0, shadow_every=0, progress=None, want_samples=4):
    """Level-synchronous BFS.  Stops at fix-point, at scn.max_depth, at scn.max_states, or after the
    first level that contains a violation (so the reported counterexamples are shortest ones)."""
    scn = _SCENARIOS[si]
    res = Result(scn)
    t0 = time.time()
    rnd = random.Random(seed)
    w0 = scn.fresh()
    seen = {w0.key(): ()}          # key -> representative history
    frontier = [()]
    pairs = []                      # (representative history, duplicate history): abstraction check
    depth = 0
    dups = 0
    P = pool()
    nchunks = nproc() * 4
    sample_by_tag = {}
    while frontier and (scn.max_depth is None or depth < scn.max_depth):
        if len(seen) >= scn.max_states:
            res.cap_hit = "max_states=%d reached at depth %d" % (scn.max_states, depth)
            break
        budget = scn.max_seconds or _DEFAULT_BUDGET[0]
        if budget and time.time() - t0 > budget:
            res.cap_hit = "time budget of %ds reached after completing depth %d" % (budget, depth)
            break
        rnd.shuffle(frontier)
        rnd.shuffle(pairs)
        size = max(1, min(48, (len(frontier) + nchunks - 1) // nchunks))
        tasks = []
        pi = 0
        per = (len(pairs) * size + len(frontier) - 1) // max(1, len(frontier)) if pairs else 0
        for i in range(0, len(frontier), size):
            tasks.append((si, frontier[i:i + size], pairs[pi:pi + per]))
            pi += per
        if pi < len(pairs):
            tasks.append((si, [], pairs[pi:]))
        pairs = []
        nxt = []
        level_viol = []
        partial = False
        for status, payload, npairs, bad in P.imap_unordered(_expand, tasks):
            if status != "ok":
                raise HarnessError(payload)
            if budget and time.time() - t0 > 1.5 * budget and not level_viol:
                # the safety net also cuts a level that runs far beyond the budget: what was expanded so far
                # has been checked, the level is reported as partial
                partial = True
                break
            res.shadow_checked += npairs
            res.replayed += 2 * npairs
            unstable = [b for b in bad if b[0] == "unstable"]
            opaque = [b for b in bad if b[0] == "opaque"]
            bad = [b for b in bad if b[0] not in ("unstable", "opaque")]
            if unstable:
                res.tags["NONDETERMINISTIC-STATE"] = res.tags.get("NONDETERMINISTIC-STATE", 0) + len(unstable)
            if opaque:
                res.tags["UNCOPYABLE-STATE-MERGED"] = res.tags.get("UNCOPYABLE-STATE-MERGED", 0) + len(opaque)
            if bad:
                raise HarnessError("ABSTRACTION-UNSOUND: scenario %s: histories %r and %r have equal keys "
                                   "but different successors" % (scn.name, bad[0][0], bad[0][1]))
            for hist, succ in payload:
                res.replayed += 1
                for ei, key, tags, viol, od in succ:
                    res.transitions += 1
                    if viol is not None:
                        level_viol.append((hist, ei) + viol)
                        res.tags["VIOLATION"] = res.tags.get("VIOLATION", 0) + 1
                        continue
                    for t in tags:
                        res.tags[t] = res.tags.get(t, 0) + 1
                    if key not in seen:
                        h2 = hist + (ei,)
                        seen[key] = h2
                        nxt.append(h2)
                        for t in tags:
                            res.tag_states[t] = res.tag_states.get(t, 0) + 1
                            if t not in sample_by_tag:
                                sample_by_tag[t] = h2
                    elif shadow_every:
                        dups += 1
                        if dups % shadow_every == 0:
                            pairs.append((seen[key], hist + (ei,)))
        if partial:
            close_pool()
            P = pool()
            res.states = len(seen)
            res.cap_hit = ("time budget of %ds exceeded during depth %d (that level was expanded only partially; "
                           "depth %d is complete)" % (budget, depth + 1, depth))
            frontier = nxt or frontier
            if level_viol:
                level_viol.sort(key=lambda v: (len(v[0]), v[0], v[1]))
                res.violations = level_viol
            break
        depth += 1
        res.depth_done = depth
        res.states = len(seen)
        if progress:
            progress("  %s depth %d states %d frontier %d transitions %d (%.1fs)"
                     % (scn.name, depth, len(seen), len(nxt), res.transitions, time.time() - t0))
        frontier = nxt
        if level_viol:
            level_viol.sort(key=lambda v: (len(v[0]), v[0], v[1]))
            res.violations = level_viol
            break
    if not res.violations:
        if not frontier:
            res.fixpoint = True
        elif res.cap_hit is None:
            res.cap_hit = "max_depth=%d" % scn.max_depth
    res.states = len(seen)
    res.wall = time.time() - t0
    # a few histories for the evidence: longest representative + first per interesting tag
    picks = []
    if frontier:
        picks.append(min(frontier))
    else:
        picks.append(max(seen.values(), key=lambda h: (len(h), h)))
    for t in sorted(sample_by_tag):
        if len(picks) >= want_samples:
            break
        if sample_by_tag[t] not in picks:
            picks.append(sample_by_tag[t])
    res.sample_hists = picks
    return res


def replay(scn, events):
    """Plain loop without the explorer: returns (trace, violation | None)."""
    w = scn.fresh()
    trace = []
    for ev in events:
        try:
            st = w.step(ev)
            trace.append(w.describe(ev, st))
        except Violation as v:
            trace.append(dict(event=repr(ev), violation=v.msg, detail=getattr(w, "last_detail", None)))
            return trace, v
    return trace, None


# --------------------------------------------------------------------------------------------
# E2 support: chunked parallel map over an enumerated input space
_ENUM = []


def register_enum(fn):
    assert _POOL is None, "enumerators must be registered before the pool forks"
    _ENUM.append(fn)
    return len(_ENUM) - 1


def _enum_call(task):
    fi, arg = task
    try:
        return ("ok", _ENUM[fi](arg))
    except Exception:
        return ("error", "exception in enumerator worker:\n%s" % traceback.format_exc())


def pmap(fi, args):
    """Run registered function fi over args on the pool (unordered); yields results."""
    P = pool()
    for status, payload in P.imap_unordered(_enum_call, [(fi, a) for a in args]):
        if status != "ok":
            raise HarnessError(payload)
        yield payload
