"""Known findings: genuine defects recorded rather than repaired (known_findings.json, never written at
run time).  A violation is attributed to a finding only through the finding's predicate, evaluated on the
counterexample; anything else stays a VIOLATION."""
import json, os

ROOT = os.path.dirname(os.path.dirname(os.path.abspath(__file__)))
PREDICATES = {}


def predicate(fid):
    def deco(fn):
        PREDICATES[fid] = fn
        return fn
    return deco


def load():
    path = os.path.join(ROOT, "known_findings.json")
    if not os.path.exists(path):
        return dict(findings=[], fixed=[])
    return json.load(open(path))


def fixed_lines(known, pid):
    return [l for l in known.get("fixed", []) if ("property=%s " % pid) in l]


def match(known, pid, scn, payload):
    """Return the finding entry this counterexample is an instance of, or None."""
    for f in known.get("findings", []):
        if pid not in f.get("properties", [f.get("property")]):
            continue
        if scn is not None and f.get("scenarios") and scn.name not in f["scenarios"]:
            continue
        pred = PREDICATES.get(f["id"])
        if pred is None:
            continue
        try:
            if pred(f, payload):
                return f
        except Exception:
            continue
    return None
