#!/bin/bash
# collect_w8.sh NN "C11,C13" "C06,C15"  -- fourth wave (free choice of property within a focus area)
nn=$1
for pair in "a:$2" "b:$3"; do
  v=${pair%%:*}; checks=${pair##*:}
  src=/tmp/wt_w8_$nn/_seed/$v
  [ -f $src/patch.diff ] || { echo "no $src/patch.diff"; continue; }
  dst=/verif/seeded/w8_$nn$v
  mkdir -p $dst
  cp $src/patch.diff $dst/patch.diff
  [ -f $src/demo.py ] && sed "s#/tmp/wt_w8_$nn#/tmp/wt_c99#g" $src/demo.py > $dst/demo.py
  [ -f $src/notes.md ] && cp $src/notes.md $dst/notes.md
  python3 - "$dst" "$checks" <<'PY'
import json, sys, os
dst, checks = sys.argv[1], sys.argv[2].split(",")
json.dump(dict(id=os.path.basename(dst), property=checks[0], origin="independent sub-agent (eighth wave: focus areas state outside the instance, region-set history, units x modes x offsets, deferred codes over time, files and lines, what a bounded exploration would still miss; told which changes were already known), given the property texts and a scratch worktree",
               needs="see notes.md", checks=checks), open(os.path.join(dst, "meta.json"), "w"), indent=1)
PY
done
git -C /repo worktree remove --force /tmp/wt_w8_$nn 2>/dev/null; git -C /repo worktree prune
