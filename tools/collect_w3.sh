#!/bin/bash
# collect_w3.sh NN  -- third wave: /tmp/wt_w3_NN/_seed/a breaks C(NN), b breaks C(NN+10)
nn=$1; n2=$(printf "%02d" $((10#$nn + 10)))
for pair in "a:$nn" "b:$n2"; do
  v=${pair%%:*}; pp=${pair##*:}
  src=/tmp/wt_w3_$nn/_seed/$v
  [ -f $src/patch.diff ] || { echo "no $src/patch.diff"; continue; }
  dst=/verif/seeded/w3c$pp
  mkdir -p $dst
  cp $src/patch.diff $dst/patch.diff
  [ -f $src/demo.py ] && sed "s#/tmp/wt_w3_$nn#/tmp/wt_c99#g" $src/demo.py > $dst/demo.py
  [ -f $src/notes.md ] && cp $src/notes.md $dst/notes.md
  python3 - "$dst" "C$pp" <<'PY'
import json, sys, os
dst, prop = sys.argv[1], sys.argv[2]
json.dump(dict(id=os.path.basename(dst), property=prop, origin="independent sub-agent (third wave, 'hard mode': interplay of features, told which changes were already known), given only the property text and a scratch worktree",
               needs="see notes.md", checks=[prop]), open(os.path.join(dst, "meta.json"), "w"), indent=1)
PY
done
git -C /repo worktree remove --force /tmp/wt_w3_$nn 2>/dev/null; git -C /repo worktree prune
