#!/usr/bin/env python3
"""Run the checks against one seeded change (or all of them) in a scratch worktree outside /repo and /verif.

usage: run_seeded.py [--all-checks] [--tier quick] SEED_DIR [SEED_DIR ...]
For each seed: worktree of /repo HEAD under /root/scratch, apply patch.diff, run the pinned baseline (must stay
green), run demo (must fail), run the check(s) named in meta.json (or all 20) with VERIF_REPO pointing at the
worktree, remove the worktree.  Prints one line per seed; writes results to SEED_DIR/result.json.
"""
import json, os, re, shutil, subprocess, sys, tempfile, time

VERIF = os.path.dirname(os.path.dirname(os.path.abspath(__file__)))
ALL = ["C%02d" % i for i in range(1, 21)]


def sh(cmd, **kw):
    return subprocess.run(cmd, shell=isinstance(cmd, str), stdout=subprocess.PIPE, stderr=subprocess.STDOUT,
                          universal_newlines=True, **kw)


def run_seed(seed, all_checks=False, tier="quick", only=None):
    seed = os.path.abspath(seed)
    name = os.path.basename(seed.rstrip("/"))
    meta = {}
    if os.path.exists(os.path.join(seed, "meta.json")):
        meta = json.load(open(os.path.join(seed, "meta.json")))
    os.makedirs("/root/scratch", exist_ok=True)
    wt = tempfile.mkdtemp(prefix="sw_%s_" % name, dir="/root/scratch")
    os.rmdir(wt)
    out = tempfile.mkdtemp(prefix="so_%s_" % name, dir="/root/scratch")
    res = dict(seed=name, applied=False)
    try:
        r = sh(["git", "-C", "/repo", "worktree", "add", "-q", "--detach", wt, "HEAD"])
        if r.returncode:
            res["error"] = r.stdout
            return res
        r = sh(["git", "-C", wt, "apply", "--whitespace=nowarn", os.path.join(seed, "patch.diff")])
        if r.returncode:
            res["error"] = "patch does not apply: " + r.stdout[-300:]
            return res
        res["applied"] = True
        r = sh(["python3", os.path.join(VERIF, "tools", "baseline.py"), wt])
        res["baseline_ok"] = r.returncode == 0
        res["baseline"] = r.stdout.strip().splitlines()[0] if r.stdout.strip() else ""
        demo = None
        for cand in ("demo.py", "test_demo.py"):
            if os.path.exists(os.path.join(seed, cand)):
                demo = cand
        if demo:
            txt = open(os.path.join(seed, demo)).read()
            txt = re.sub(r"/tmp/wt_c\d+\w*", wt, txt)
            dp = os.path.join(out, "demo.py")
            open(dp, "w").write(txt)
            r = sh(["/venv/bin/python", dp], cwd=wt)
            res["demo_fails_with_patch"] = r.returncode != 0
            res["demo_tail"] = r.stdout.strip().splitlines()[-1][:200] if r.stdout.strip() else ""
        checks = ALL if all_checks else meta.get("checks", [meta.get("property")] if meta.get("property") else ALL)
        if only:
            checks = only
        env = dict(os.environ, VERIF_REPO=wt, VERIF_OUT=out, VERIF_TIER=tier)
        det = {}
        for pid in checks:
            t0 = time.time()
            r = sh([os.path.join(VERIF, "check"), pid, "--tier", tier], env=env)
            viol = [l for l in r.stdout.splitlines() if l.startswith("VIOLATION")]
            msg = ""
            lines = r.stdout.splitlines()
            for i, l in enumerate(lines):
                if l.startswith("VIOLATION") and i + 1 < len(lines):
                    msg = lines[i + 1].strip()[:220]
                    break
            if r.returncode == 2:
                msg = [l for l in lines if "HARNESS-ERROR" in l][:1]
            det[pid] = dict(rc=r.returncode, violations=len(viol), first=msg, wall=round(time.time() - t0, 1))
        res["checks"] = det
        res["detected_by"] = [p for p, d in det.items() if d["rc"] == 1]
        res["harness_errors"] = [p for p, d in det.items() if d["rc"] == 2]
    finally:
        sh(["git", "-C", "/repo", "worktree", "remove", "--force", wt])
        sh(["git", "-C", "/repo", "worktree", "prune"])
        shutil.rmtree(wt, ignore_errors=True)
        shutil.rmtree(out, ignore_errors=True)
    return res


def main():
    args = sys.argv[1:]
    all_checks = "--all-checks" in args or "--expect-silent" in args
    silent = "--expect-silent" in args
    tier = "quick"
    if "--tier" in args:
        tier = args[args.index("--tier") + 1]
    only = None
    if "--checks" in args:          # --checks C01,C03: just these (result.json is then left as it is)
        only = args[args.index("--checks") + 1].split(",")
    seeds = [a for a in args if not a.startswith("--") and a != tier and a.split(",") != only]
    rc = 0
    for s in seeds:
        res = run_seed(s, all_checks, tier, only)
        if not only:
            json.dump(res, open(os.path.join(s, "result.json"), "w"), indent=1)
        print("%-28s baseline=%s demo_fails=%s detected_by=%s%s%s" % (
            res["seed"], res.get("baseline_ok"), res.get("demo_fails_with_patch"), ",".join(res.get("detected_by", [])) or "-",
            (" HARNESS-ERRORS=" + ",".join(res["harness_errors"])) if res.get("harness_errors") else "",
            (" ERROR " + res["error"]) if res.get("error") else ""))
        sys.stdout.flush()
        if silent:
            if res.get("detected_by") or res.get("harness_errors"):
                print("   FALSE ALARM? " + "; ".join("%s: %s" % (p, res["checks"][p]["first"]) for p in
                                                        res.get("detected_by", []) + res.get("harness_errors", [])))
                rc = 1
        elif not res.get("detected_by"):
            rc = 1
    return rc


if __name__ == "__main__":
    sys.exit(main())
