#!/bin/bash
# collect_w6.sh NN PA PB -- fifth wave: /tmp/wt_w6_NN/_seed/a breaks C(PA), b breaks C(PB)
nn=$1
for pair in "a:$2" "b:$3"; do
  v=${pair%%:*}; pp=${pair##*:}
  src=/tmp/wt_w6_$nn/_seed/$v
  [ -f $src/patch.diff ] || { echo "no $src/patch.diff"; continue; }
  dst=/verif/seeded/w6c$pp
  mkdir -p $dst
  cp $src/patch.diff $dst/patch.diff
  [ -f $src/demo.py ] && sed "s#/tmp/wt_w6_$nn#/tmp/wt_c99#g" $src/demo.py > $dst/demo.py
  [ -f $src/notes.md ] && cp $src/notes.md $dst/notes.md
  python3 - "$dst" "C$pp" <<'PY'
import json, sys, os
dst, prop = sys.argv[1], sys.argv[2]
json.dump(dict(id=os.path.basename(dst), property=prop, origin="independent sub-agent (sixth wave: asked to escape a small-alphabet bounded exploration (numeric relations, counts, long orders, unusual tokens)), given only the property text and a scratch worktree",
               needs="see notes.md", checks=[prop]), open(os.path.join(dst, "meta.json"), "w"), indent=1)
PY
done
git -C /repo worktree remove --force /tmp/wt_w6_$nn 2>/dev/null; git -C /repo worktree prune
