#!/usr/bin/env python3
"""crlf_edit.py FILE <<< JSON [[old, new], ...]   -- exact replacements on a CRLF file; old/new use \n."""
import json, sys
path = sys.argv[1]
pairs = json.load(sys.stdin)
data = open(path, "rb").read().decode("utf-8")
crlf = "\r\n" in data
for old, new in pairs:
    if crlf:
        old = old.replace("\n", "\r\n"); new = new.replace("\n", "\r\n")
    if data.count(old) != 1:
        sys.exit("pattern occurs %d times in %s:\n%s" % (data.count(old), path, old))
    data = data.replace(old, new)
open(path, "wb").write(data.encode("utf-8"))
