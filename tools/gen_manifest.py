#!/usr/bin/env python3
"""Regenerates /verif/MANIFEST.json from the table below and validates it against the schema."""
import json, os, sys
ROOT = os.path.dirname(os.path.dirname(os.path.abspath(__file__)))

E1 = "explicit-state model checking of the implementation: breadth-first enumeration of event histories executed on the real plugin, reference-model monitors, canonical-state de-duplication"
E2 = "bounded-exhaustive enumeration (small-scope model checking) of the input space, each input executed on the real code and decided against an exact reference"

CHECKS = {
 "C01": (E1, "6/C01, 11-13", "all histories (fix-point in absolute mm; depth-bounded with relative/inch) over moves to points inside/outside/on the borders, the bed origin, single-axis and Z-only moves, retract/recover/wipes, clear/crossing/entering/printing/helical arcs, @-commands, regions added mid-print, scripts; every forwarded command is executed on an exact reference printer and judged physically; a directed probe turns a drifted tracked position into a behavioural witness",
         "reference printer is Marlin-like by construction; alphabet-relative; relative-mode arcs are known finding D14 (dedicated scenario)"),
 "C02": (E1, "6/C02, 11-13", "all histories under the three 'never touches an enabled region' premises x both G90-E settings, incl. the origin, single-axis moves with disable/enable, a second print after a print left in another mode; every hook result must mean 'forward this command unchanged'",
         "arcs must stay >= 2 mm clear; G92 X/Y/Z only in the dedicated scenario (known finding D16)"),
 "C03": (E1, "6/C03, 11-13", "all histories with Z-changing entries, arcs, four mode/unit combinations (also switched inside an episode), exit by move or by disable; filtered (A) vs unfiltered (B) exact reference printers compared after every move that ends outside; Z order of the re-positioning travel",
         "tolerance 1e-6 mm; relative/inch scenarios depth-bounded"),
 "C04": (E1, "6/C04, 11-13", "all absolute-extrusion histories with matched cycles (E-only, firmware, printing arcs, inch, non-zero G92 E) to fix-point; extruder register, per-move pushed filament and a filament-conservation account compared between printers A and B",
         "premises of C04 are enabledness rules of the menu"),
 "C05": (E1, "6/C05, 11-13", "reachable-state exploration to fix-point of the retraction machine composed with every episode placement (E-only, firmware incl. compact spelling, inch); depth bounds, parity, regenerated parameters and over-recovery decided on printers A and B",
         "E-only and firmware cycles explored separately, as the property states; depth tolerance 1e-4 mm"),
 "C06": (E1, "6/C06, 11-13", "all histories over deferred codes of every mode (zero / value-less / repeated parameters), scripts configured through the real settings (incl. non-G/M/T lines), code list reconfigured between episodes, region deleted mid-episode, and the four ways an episode ends, to fix-point; every command emitted at an episode boundary must be explained by the reference accounting",
         "scripts use codes that are not themselves deferred; merged commands compared by RS274 reading"),
 "C07": (E1 + "; " + E2, "6/C07, 11-13", "depth-bounded value-stress histories (tiny/huge values, relative round-off, inch) with a firmware-level grammar on every synthesised command and exponent-blind reference printers, plus a decade x mantissa grid (incl. 0) through every formatting site",
         "depth-bounded by design (values drift); grid 1e-12..1e17"),
 "C08": (E1, "6/C08, 11-13", "product exploration of two real plugins on the same abstract path under two encodings (inch / relative / translated), switch at every position, incl. the origin, single-axis moves and homing (G28 X Y, G28 W); decision class, episode flag and physical position compared per step",
         "margin >= 0.5 mm from borders; position tolerance 1e-4 mm; G92 re-basing is known finding D16 (dedicated scenario)"),
 "C09": (E2, "6/C09, 11-13", "all command sequences up to length 2 (3 thorough) over a ~700-command grammar x region sets x {outside, inside an episode, region drawn around the nozzle} x both entry points; no exception, protocol-conformant result shape",
         "arc radii capped at 1000"),
 "C10": (E1, "6/C10, 11-13", "every state reachable within the depth bound (moves, retractions, deferred codes, modes, home offset and G92 X/Y re-basing, @-commands, API and settings changes, aborted prints) is followed by print-started on a copy and compared behaviourally with a freshly initialised plugin: all probe programs up to length 2 (3 thorough; one deeper if the states differ) must give identical hook outputs",
         "probes start with G28; 12 probe commands + the afterPrintDone hook"),
 "C11": (E1, "6/C11, 11-13", "all interleavings of lifecycle events, settings updates, the three hooks and an API add, to fix-point, against a lifecycle model; inactive hooks must not alter or track; while active, decisions follow the current region list",
         "interleaving of whole hook/event calls"),
 "C12": (E1 + "; " + E2, "6/C12, 11-13", "request histories in all four (active x mayShrink) modes to fix-point plus every ordered pair of a geometry catalogue updated while printing, decided by exact rational containment and sample points",
         "containment verdicts within 1e-9 of an irrational touch are accepted either way"),
 "C13": (E1, "6/C13, 11-13", "all API request histories x users x events to fix-point (list <= 3, incl. coordinates with many decimals) against a reference registry: status codes, unchanged list on rejection, exactly one notification per change carrying the current list, GET",
         "uuid4 replaced by a per-world counter"),
 "C14": (E1, "6/C14, 11-13", "all histories with enable/disable/unmatched/streaming @-commands at arbitrary points under default, custom, empty-matching and case-sensitive patterns, with arcs, consecutive prints and relative moves; reference flag from the configured patterns; C01/C03 obligations after re-enabling",
         "sent commands are re-fed through the queuing hook as MachineCom does; disable inside an episode in G91 is known finding D17"),
 "C15": (E1, "6/C15, 11-13", "all programs ending inside/outside an episode x all script-hook invocation sequences (near-miss names, other types) x end events (all five job-ending events and pause/resume around an open episode), partial homing, region deleted mid-episode, to fix-point; the contribution is decoded as OctoPrint does, executed on printer A and compared with B",
         "prefix lines interpreted as OctoPrint would send them"),
 "C16": (E2, "6/C16, 11-13", "complete grid of I/J arcs (slicer-style offsets; start x radius x start angle x sweep x direction, incl. arcs ending micrometres from their start) and R-form chords through planArc/computeArcCenterOffsets, incl. segment count vs arc length, plus end-to-end runs through the hook (12- and 3-decimal coordinates, omitted zero words) against probe regions",
         "absolute mm; R-form centre defect D2 is a known finding attributed by exact signature"),
 "C17": (E2, "6/C17, 11-13", "complete grid: 629 rectangles (all corner orders, degenerate) x 76 discs x 1/4-lattice points, and all ordered region pairs of all four type combinations, against exact rational geometry",
         "verdicts that differ only within 1e-12 of a disc border are not reported"),
 "C18": (E2, "6/C18, 11-13", "every string over a 16-symbol alphabet up to length 5 (6 thorough) and every concatenation of <= 3 lines from a 40-line catalogue: lossless, stable normalisation (also re-parsed by the same instance), self-validating checksum checked against an independent XOR",
         "fresh parser per input"),
 "C19": (E2, "6/C19, 11-13", "every word sequence up to 2 (3 thorough) words over 7 letters x 9 spellings x spacing: parser pairs vs independent reader, and G1/G92/G28/G2 through the real hook vs reference printer",
         "numbers without exponent; G92 X/Y/Z value read back sign-agnostically (D16)"),
 "C20": (E2, "6/C20, 11-13", "every file of up to 2 lines (3 thorough; 3 for one live state in quick) over a 32-line alphabet x EOL x terminator x 5 live states, against a twin plugin driven through the live hooks; results judged by meaning",
         "process_line(str) is the observation point; canonical upper-case command spellings"),
}
PENDING = ["C02", "C06", "C07", "C08", "C09", "C10", "C11", "C12", "C13", "C14", "C15", "C16", "C17", "C18", "C19", "C20"]


def main():
    checks = []
    for pid in sorted(CHECKS):
        tech, ref, text, note = CHECKS[pid]
        checks.append(dict(
            property_id=pid,
            quick_cmd="./check %s --tier quick" % pid,
            thorough_cmd="./check %s --tier thorough" % pid,
            evidence_file="/verif/evidence/%s.json" % pid,
            replay_cmd_template="./check %s --replay {path}" % pid,
            engine="mc",
            level_claimed=dict(category="model_checking", text=text, design_ref="DESIGN.md section " + ref),
            level_note=note,
            technique=tech))
    man = dict(
        version=1,
        setup_cmd="/venv/bin/python -c \"import sys; sys.path.insert(0, '/verif'); import mc.harness\"",
        hooks=dict(guard="EXCLUDEREGION_VERIF",
                   enable="no source hooks are needed; checks import the package from /repo's working tree (sys.path[0]=/repo) in a fresh interpreter",
                   baseline_off_cmd="cd /repo && env -u EXCLUDEREGION_VERIF /venv/bin/python -m pytest -ra -q -p no:cacheprovider --timeout=900 --continue-on-collection-errors",
                   source_commits=[], add_only=True),
        engines=[dict(name="mc", path="/verif/mc", serves_properties=sorted(CHECKS),
                      kind_free_text="hand-written explicit-state explorer (E1) and bounded-exhaustive enumerator (E2) driving the real Python implementation; 16 forked workers")],
        checks=checks,
        notes="see DESIGN.md; known findings in known_findings.json; seeded property-breaking changes in seeded/",
        not_applicable=[dict(property_id=p, reason="check not built yet (work in progress; no technique limitation)") for p in PENDING if p not in CHECKS],
    )
    path = os.path.join(ROOT, "MANIFEST.json")
    json.dump(man, open(path, "w"), indent=1)
    open(path, "a").write("\n")
    try:
        import jsonschema
        jsonschema.validate(man, json.load(open("/root/.vp/MANIFEST.schema.json")))
        print("MANIFEST.json valid,", len(checks), "checks")
    except ImportError:
        print("MANIFEST.json written (jsonschema not available here)")

if __name__ == "__main__":
    main()
