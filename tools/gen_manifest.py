#!/usr/bin/env python3
"""Regenerates /verif/MANIFEST.json from the table below and validates it against the schema."""
import json, os, sys
ROOT = os.path.dirname(os.path.dirname(os.path.abspath(__file__)))

E1 = "explicit-state model checking of the implementation: breadth-first enumeration of event histories executed on the real plugin, reference-model monitors, canonical-state de-duplication"
E2 = "bounded-exhaustive enumeration (small-scope model checking) of the input space, each input executed on the real code and decided against an exact reference"

CHECKS = {
 "C01": (E1, "6/C01", "all histories over a colliding alphabet of moves, arcs, retract/wipe, @-commands and late region additions; physical effect of every forwarded command decided on a reference printer",
         "reference printer is Marlin-like by construction; alphabet-relative (named points, one retraction length); arcs in absolute mm only"),
 "C03": (E1, "6/C03", "all histories with Z-changing entries, four mode/unit combinations, exit by move or by disable; A (filtered) vs B (unfiltered) reference printers compared after every move that ends outside",
         "tolerance 1e-6 mm; relative/inch scenarios are depth-bounded because rounding makes states path-dependent"),
 "C04": (E1, "6/C04", "all absolute-extrusion histories with matched cycles to fix-point; extruder register and per-move pushed filament compared between printers A and B",
         "premises of C04 (absolute E, matched equal-length cycles) are enabledness rules of the menu"),
 "C05": (E1, "6/C05", "reachable-state exploration to fix-point of the retraction machine composed with every episode placement; depth bounds and parity decided on printers A and B",
         "E-only and firmware cycles are explored separately (never mixed), as the property states"),
}
PENDING = ["C02", "C06", "C07", "C08", "C09", "C10", "C11", "C12", "C13", "C14", "C15", "C16", "C17", "C18", "C19", "C20"]


def main():
    checks = []
    for pid in sorted(CHECKS):
        tech, ref, text, note = CHECKS[pid]
        checks.append(dict(
            property_id=pid,
            quick_cmd="./check %s --tier quick" % pid,
            thorough_cmd="./check %s --tier thorough" % pid,
            evidence_file="/verif/evidence/%s.json" % pid,
            replay_cmd_template="./check %s --replay {path}" % pid,
            engine="mc",
            level_claimed=dict(category="model_checking", text=text, design_ref="DESIGN.md section " + ref),
            level_note=note,
            technique=tech))
    man = dict(
        version=1,
        setup_cmd="/venv/bin/python -c \"import sys; sys.path.insert(0, '/verif'); import mc.harness\"",
        hooks=dict(guard="EXCLUDEREGION_VERIF",
                   enable="no source hooks are needed; checks import the package from /repo's working tree (sys.path[0]=/repo) in a fresh interpreter",
                   baseline_off_cmd="cd /repo && env -u EXCLUDEREGION_VERIF /venv/bin/python -m pytest -ra -q -p no:cacheprovider --timeout=900 --continue-on-collection-errors",
                   source_commits=[], add_only=True),
        engines=[dict(name="mc", path="/verif/mc", serves_properties=sorted(CHECKS),
                      kind_free_text="hand-written explicit-state explorer (E1) and bounded-exhaustive enumerator (E2) driving the real Python implementation; 16 forked workers")],
        checks=checks,
        notes="see DESIGN.md; known findings in known_findings.json; seeded property-breaking changes in seeded/",
        not_applicable=[dict(property_id=p, reason="check not built yet (work in progress; no technique limitation)") for p in PENDING if p not in CHECKS],
    )
    path = os.path.join(ROOT, "MANIFEST.json")
    json.dump(man, open(path, "w"), indent=1)
    open(path, "a").write("\n")
    try:
        import jsonschema
        jsonschema.validate(man, json.load(open("/root/.vp/MANIFEST.schema.json")))
        print("MANIFEST.json valid,", len(checks), "checks")
    except ImportError:
        print("MANIFEST.json written (jsonschema not available here)")

if __name__ == "__main__":
    main()
