#!/usr/bin/env python3
"""Regenerates /verif/MANIFEST.json from the table below and validates it against the schema."""
import json, os, sys
ROOT = os.path.dirname(os.path.dirname(os.path.abspath(__file__)))

E1 = "explicit-state model checking of the implementation: breadth-first enumeration of event histories executed on the real plugin, reference-model monitors, canonical-state de-duplication"
E2 = "bounded-exhaustive enumeration (small-scope model checking) of the input space, each input executed on the real code and decided against an exact reference"

CHECKS = {
 "C01": (E1, "6/C01", "all histories over a colliding alphabet of moves, arcs, retract/wipe, @-commands and late region additions; physical effect of every forwarded command decided on a reference printer",
         "reference printer is Marlin-like by construction; alphabet-relative (named points, one retraction length); arcs in absolute mm only"),
 "C03": (E1, "6/C03", "all histories with Z-changing entries, four mode/unit combinations, exit by move or by disable; A (filtered) vs B (unfiltered) reference printers compared after every move that ends outside",
         "tolerance 1e-6 mm; relative/inch scenarios are depth-bounded because rounding makes states path-dependent"),
 "C04": (E1, "6/C04", "all absolute-extrusion histories with matched cycles to fix-point; extruder register and per-move pushed filament compared between printers A and B",
         "premises of C04 (absolute E, matched equal-length cycles) are enabledness rules of the menu"),
 "C05": (E1, "6/C05", "reachable-state exploration to fix-point of the retraction machine composed with every episode placement; depth bounds and parity decided on printers A and B",
         "E-only and firmware cycles are explored separately (never mixed), as the property states"),
 "C02": (E1, "6/C02", "all histories under the three 'never touches an enabled region' premises x both G90-E settings; every hook result must be None or exactly [cmd]",
         "arcs must stay >= 2 mm clear; G92 X/Y/Z is exercised in a dedicated scenario (known finding D16)"),
 "C09": (E2, "6/C09", "all command sequences up to length 2 (3 thorough) over a ~580-command grammar x region sets x in/out of an episode x both entry points; no exception, protocol-conformant result shape",
         "arc radii capped at 1000 (larger radii are non-termination, not exceptions)"),
 "C11": (E1, "6/C11", "all interleavings of lifecycle events, settings updates, the three hooks and an API add, to fix-point, against a 40-line lifecycle model; inactive hooks must leave the canonical state unchanged",
         "interleaving of whole hook/event calls; no preemption inside a call"),
 "C12": (E1 + "; " + E2, "6/C12", "request histories in all four (active x mayShrink) modes to fix-point plus every ordered pair of a geometry catalogue updated while printing, decided by exact rational containment and sample points",
         "containment verdicts within 1e-9 of an irrational touch are accepted either way"),
 "C13": (E1, "6/C13", "all API request histories x users x events to fix-point (list <= 3) against a reference registry: status codes, unchanged state on rejection, exactly one notification per change with the current list",
         "uuid4 replaced by a per-world counter"),
 "C15": (E1, "6/C15", "all programs ending inside/outside an episode x all script-hook invocation sequences x end events, to fix-point; contributed prefix executed on reference printer A and compared with B",
         "prefix lines interpreted as OctoPrint would send them"),
 "C16": (E2, "6/C16", "complete grid of I/J arcs (start x radius x start angle x sweep x direction) and R-form chords through planArc/computeArcCenterOffsets, plus the same arcs end-to-end through the hook against probe regions",
         "absolute mm; R-form centre defect D2 is a known finding attributed by exact signature"),
 "C17": (E2, "6/C17", "complete grid: 629 rectangles (all corner orders, degenerate) x 76 discs x 1/4-lattice points, and all ordered region pairs of all four type combinations, against exact rational geometry",
         "verdicts that differ only within 1e-12 of a disc border are not reported"),
 "C18": (E2, "6/C18", "every string over a 16-symbol alphabet up to length 5 (6 thorough) and every concatenation of <= 3 lines from a 40-line catalogue: lossless, stable normalisation, self-validating checksum",
         "fresh parser per input"),
 "C19": (E2, "6/C19", "every word sequence up to 2 (3 thorough) words x spellings x spacing: parser pairs vs independent reader, and G1/G92/G28/G2 through the real hook vs reference printer",
         "numbers without exponent; G92 X/Y/Z value read back sign-agnostically (D16)"),
 "C06": (E1, "6/C06", "all histories over deferred codes of every mode, scripts configured through the real settings, and the four ways an episode ends, to fix-point; every command emitted at an episode boundary must be explained by the reference accounting",
         "scripts use codes that are not themselves deferred; merged commands compared by RS274 reading"),
 "C07": (E1 + "; " + E2, "6/C07", "depth-bounded value-stress histories (tiny/huge values, relative round-off, inch) with a strict grammar on every synthesised command and exponent-blind reference printers, plus a decade x mantissa grid through every formatting site",
         "depth-bounded by design (values drift); grid 1e-12..1e17"),
 "C08": (E1, "6/C08", "product exploration of two real plugins on the same abstract path under two encodings (inch / relative / translated; G92 re-basing in a dedicated known-finding scenario), switch at every position; decision class, episode flag and physical position compared per step",
         "margin >= 0.5 mm from borders; position tolerance 1e-4 mm"),
 "C10": (E1, "6/C10", "every state reachable within the depth bound is followed by print-started on a copy and compared with a freshly initialised plugin: canonical state equality plus all probe programs up to length 2 (3 thorough) giving identical hook outputs",
         "probes start with G28; 12 probe commands"),
 "C14": (E1, "6/C14", "all histories with enable/disable/unmatched/streaming @-commands at arbitrary points under default and custom patterns, to fix-point; reference flag from the configured patterns; C01/C03 obligations after re-enabling",
         "sent commands are re-fed through the queuing hook as MachineCom does; disable inside an episode in G91 is known finding D17 (dedicated scenario)"),
 "C20": (E2, "6/C20", "every file of up to 2 lines (3 thorough; 3 for one live state in quick) over a 24-line alphabet x EOL x terminator x 4 live states, against a twin plugin driven through the live hooks",
         "process_line(str) is the observation point; canonical upper-case command spellings"),
}
PENDING = ["C02", "C06", "C07", "C08", "C09", "C10", "C11", "C12", "C13", "C14", "C15", "C16", "C17", "C18", "C19", "C20"]


def main():
    checks = []
    for pid in sorted(CHECKS):
        tech, ref, text, note = CHECKS[pid]
        checks.append(dict(
            property_id=pid,
            quick_cmd="./check %s --tier quick" % pid,
            thorough_cmd="./check %s --tier thorough" % pid,
            evidence_file="/verif/evidence/%s.json" % pid,
            replay_cmd_template="./check %s --replay {path}" % pid,
            engine="mc",
            level_claimed=dict(category="model_checking", text=text, design_ref="DESIGN.md section " + ref),
            level_note=note,
            technique=tech))
    man = dict(
        version=1,
        setup_cmd="/venv/bin/python -c \"import sys; sys.path.insert(0, '/verif'); import mc.harness\"",
        hooks=dict(guard="EXCLUDEREGION_VERIF",
                   enable="no source hooks are needed; checks import the package from /repo's working tree (sys.path[0]=/repo) in a fresh interpreter",
                   baseline_off_cmd="cd /repo && env -u EXCLUDEREGION_VERIF /venv/bin/python -m pytest -ra -q -p no:cacheprovider --timeout=900 --continue-on-collection-errors",
                   source_commits=[], add_only=True),
        engines=[dict(name="mc", path="/verif/mc", serves_properties=sorted(CHECKS),
                      kind_free_text="hand-written explicit-state explorer (E1) and bounded-exhaustive enumerator (E2) driving the real Python implementation; 16 forked workers")],
        checks=checks,
        notes="see DESIGN.md; known findings in known_findings.json; seeded property-breaking changes in seeded/",
        not_applicable=[dict(property_id=p, reason="check not built yet (work in progress; no technique limitation)") for p in PENDING if p not in CHECKS],
    )
    path = os.path.join(ROOT, "MANIFEST.json")
    json.dump(man, open(path, "w"), indent=1)
    open(path, "a").write("\n")
    try:
        import jsonschema
        jsonschema.validate(man, json.load(open("/root/.vp/MANIFEST.schema.json")))
        print("MANIFEST.json valid,", len(checks), "checks")
    except ImportError:
        print("MANIFEST.json written (jsonschema not available here)")

if __name__ == "__main__":
    main()
