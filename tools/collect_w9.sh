#!/bin/bash
# collect_w9.sh CNN -- ninth wave: /tmp/w9_CNN holds the applied change, demo.py and NOTE.md -> /verif/seeded/w9cNN
p=$1; nn=${p#C}
wt=/tmp/w9_$p
[ -f $wt/demo.py ] || { echo "no $wt/demo.py"; exit 1; }
dst=/verif/seeded/w9c$nn
mkdir -p $dst
git -C $wt diff -- octoprint_excluderegion > $dst/patch.diff
[ -s $dst/patch.diff ] || { echo "empty patch for $p"; exit 1; }
sed "s#/tmp/w9_$p#/tmp/wt_c99#g" $wt/demo.py > $dst/demo.py
[ -f $wt/NOTE.md ] && cp $wt/NOTE.md $dst/notes.md
python3 - "$dst" "$p" <<'PY'
import json, sys, os
dst, prop = sys.argv[1], sys.argv[2]
json.dump(dict(id=os.path.basename(dst), property=prop, origin="independent sub-agent (ninth wave: multi-step sequences, unusual legal inputs, state that survives a reset, two cooperating sites), given only the property text and a scratch worktree",
               needs="see notes.md", checks=[prop]), open(os.path.join(dst, "meta.json"), "w"), indent=1)
PY
git -C /repo worktree remove --force $wt 2>/dev/null; git -C /repo worktree prune
echo collected $dst
