#!/bin/bash
# collect_benign.sh NN -- behaviour-preserving changes written by sub-agents: /tmp/wt_bNN/_seed/{a,b,c} -> /verif/benign/bNNx
nn=$1
for v in a b c; do
  src=/tmp/wt_b$nn/_seed/$v
  [ -f $src/patch.diff ] || { echo "no $src/patch.diff"; continue; }
  dst=/verif/benign/b$nn$v
  mkdir -p $dst
  cp $src/patch.diff $dst/patch.diff
  [ -f $src/notes.md ] && cp $src/notes.md $dst/notes.md
  python3 - "$dst" <<'PY'
import json, sys, os
dst = sys.argv[1]
json.dump(dict(id=os.path.basename(dst), kind="behaviour-preserving change (all twenty properties still hold)",
               origin="independent sub-agent given the twenty property texts and a scratch worktree", checks=["C%02d" % i for i in range(1, 21)]),
          open(os.path.join(dst, "meta.json"), "w"), indent=1)
PY
done
git -C /repo worktree remove --force /tmp/wt_b$nn 2>/dev/null; git -C /repo worktree prune
