#!/usr/bin/env python3
"""Generates mutants/<name>/{patch.diff, meta.json} from the table below (own catalogue of realistic
property-breaking changes, DESIGN section 9).  Each is built in a scratch worktree of /repo HEAD."""
import json, os, subprocess, sys, tempfile, shutil
VERIF = os.path.dirname(os.path.dirname(os.path.abspath(__file__)))
P = "octoprint_excluderegion/"
M = [
 ("c01_hypot_typo", "C01", ["C01", "C17"], P + "CircularRegion.py", "math.hypot(x - self.cx, y - self.cy)", "math.hypot(x - self.cx, y - self.cx)",
  "disc membership uses cx for the y offset: invisible for discs with cx == cy"),
 ("c01_first_two_regions", "C01", ["C01"], P + "ExcludeRegionState.py", "            for region in self.excludedRegions:\n                if (region.containsPoint(x, y)):", "            for region in self.excludedRegions[:2]:\n                if (region.containsPoint(x, y)):",
  "only the first two regions are tested: needs three regions at once"),
 ("c01_entering_extrusion_forwarded", "C01", ["C01", "C04"], P + "ExcludeRegionState.py", "        if (deltaE < 0):\n            # To accommodate for Slic3r retraction behavior, check for retractions\n            # for moves as well.\n            returnCommands.extend(self._processNonMove(cmd, deltaE))\n", "        if (deltaE < 0):\n            # To accommodate for Slic3r retraction behavior, check for retractions\n            # for moves as well.\n            returnCommands.extend(self._processNonMove(cmd, deltaE))\n        elif (deltaE > 0 and len(returnCommands) > 0):\n            returnCommands.append(cmd)\n",
  "an extruding entering move is forwarded when an enter script is configured"),
 ("c14_not_tracked_while_disabled", "C14", ["C14", "C01", "C03"], P + "ExcludeRegionState.py", "        for index in range(0, len(xyPairs), 2):\n            x = xAxis.setLogicalPosition(xyPairs[index])", "        for index in range(0, len(xyPairs) if self._exclusionEnabled else 0, 2):\n            x = xAxis.setLogicalPosition(xyPairs[index])",
  "X/Y not tracked while exclusion is disabled: needs disable, move, enable, single-axis or relative move"),
 ("c02_upper_cased", "C02", ["C02"], P + "__init__.py", "            return self.gcodeHandlers.handleGcode(cmd, gcode, subcode)", "            return self.gcodeHandlers.handleGcode(cmd.upper(), gcode, subcode)",
  "the hook hands a normalised (upper-cased) command to the handlers: a lower-case spelling is rewritten"),
 ("c03_position_copy_aliases_z", "C03", ["C03"], P + "Position.py", "            self.Z_AXIS = AxisPosition(position.Z_AXIS)", "            self.Z_AXIS = position.Z_AXIS",
  "Position copy shares the Z axis object: lastPosition follows the tracked Z, Z changes inside an episode are never replayed"),
 ("c03_z_down_only_absolute", "C03", ["C03"], P + "ExcludeRegionState.py", "        if (newZ < oldZ):\n", "        if (newZ < oldZ and self.position.Z_AXIS.absoluteMode):\n",
  "downward Z re-sync skipped in relative mode"),
 ("c05_enter_forgets_retraction", "C05", ["C05"], P + "ExcludeRegionState.py", "        self.lastPosition = Position(self.position)\n        self._logger.info(\"START excluding", "        self.lastPosition = Position(self.position)\n        self.lastRetraction = None\n        self._logger.info(\"START excluding",
  "entering a region forgets an open retraction: the next in-region retraction is executed again (double retraction)"),
 ("c06_exit_script_alias", "C06", ["C06"], P + "ExcludeRegionState.py", "        returnCommands = []\n\n        if (self.pendingCommands):\n            for gcode, cmdArgs", "        returnCommands = []\n        if (not self.pendingCommands and self.exitingExcludedRegionGcode is not None):\n            return self.exitingExcludedRegionGcode\n\n        if (self.pendingCommands):\n            for gcode, cmdArgs",
  "exit script list returned by reference and extended by the caller: grows with every episode"),
 ("c06_script_keeps_comments", "C06", ["C06"], P + "__init__.py", "                includeLineNumber=False,\n                includeComment=False,\n                includeEol=False\n            )\n            # \"0\" is falsy", "                includeLineNumber=False,\n                includeComment=True,\n                includeEol=False\n            )\n            # \"0\" is falsy",
  "script splitter keeps comments"),
 ("c07_str_formatting", "C07", ["C07", "C03"], P + "CommonMixin.py", "    if (not isinstance(value, str) and ((\"e\" in text) or (\"E\" in text))):", "    if (False and not isinstance(value, str) and ((\"e\" in text) or (\"E\" in text))):",
  "exponent notation returns for tiny/huge values"),
 ("c08_inch_factor", "C08", ["C08", "C03"], P + "GcodeHandlers.py", "INCH_TO_MM_FACTOR = 25.4", "INCH_TO_MM_FACTOR = 25.0",
  "inch factor 25.0: decisions differ only for destinations within 1.6 % of a border"),
 ("c09_none_filtered", "C09", ["C09"], P + "__init__.py", "            return self.gcodeHandlers.handleGcode(cmd, gcode, subcode)", "            result = self.gcodeHandlers.handleGcode(cmd, gcode, subcode)\n            if (isinstance(result, tuple)):\n                result = [item for item in result if item is not None]\n            return result",
  "suppress marker (None,) turned into an empty list"),
 ("c10_reset_keeps_enabled_flag", "C10", ["C10"], P + "ExcludeRegionState.py", "        self.feedRateUnitMultiplier = 1\n        self._exclusionEnabled = True\n", "        self.feedRateUnitMultiplier = 1\n        if (clearExcludedRegions):\n            self._exclusionEnabled = True\n",
  "a new print inherits 'exclusion disabled' from the previous one"),
 ("c11_paused_ends_job", "C11", ["C11"], P + "__init__.py", "                Events.PRINT_CANCELLED,\n                Events.ERROR\n", "                Events.PRINT_CANCELLED,\n                Events.PRINT_PAUSED,\n                Events.ERROR\n",
  "pause ends the job"),
 ("c11_at_hook_not_gated", "C11", ["C11"], P + "__init__.py", "        if (self.isActivePrintJob):\n            self.gcodeHandlers.handleAtCommand(commInstance, cmd, parameters)", "        if (True):\n            self.gcodeHandlers.handleAtCommand(commInstance, cmd, parameters)",
  "@-commands processed while no print is active"),
 ("c12_delete_guard_excluding", "C12", ["C12"], P + "__init__.py", "        if (not self.mayShrinkRegionsWhilePrinting and self.isActivePrintJob):\n            return \"Cannot delete region while printing\", 409", "        if (not self.mayShrinkRegionsWhilePrinting and self.isActivePrintJob and self.state.excluding):\n            return \"Cannot delete region while printing\", 409",
  "delete refused only while inside an episode"),
 ("c13_notify_before_mutation", "C13", ["C13"], P + "__init__.py", "            self.state.addRegion(region)\n            self._notifyExcludedRegionsChanged()\n            return None", "            self._notifyExcludedRegionsChanged()\n            self.state.addRegion(region)\n            return None",
  "notification sent before the list is changed (stale payload, and sent even when the add is rejected)"),
 ("c13_no_notify_on_delete", "C13", ["C13"], P + "__init__.py", "        if (self.state.deleteRegion(idToDelete)):\n            self._notifyExcludedRegionsChanged()\n", "        self.state.deleteRegion(idToDelete)\n",
  "no notification on delete"),
 ("c14_first_action_only", "C14", ["C14"], P + "__init__.py", "            else:\n                entry.append(val)\n        self.state.atCommandActions = atCommandActions", "            else:\n                pass\n        self.state.atCommandActions = atCommandActions",
  "only the first action per @-command is kept (enable lost)"),
 ("c15_hook_ignores_active", "C15", ["C15", "C11"], P + "__init__.py", "            if (self.isActivePrintJob and self.state.excluding):", "            if (self.state.excluding):",
  "afterPrintDone hook contributes after the print has ended (episode left open by a cancelled print)"),
 ("c16_midY", "C16", ["C16"], P + "GcodeHandlers.py", "            midY = (q1 + q2) / 2", "            midY = q1 if (q1 == q2) else (q1 + q2) / 2 + 0.5",
  "R-form centre wrong in a way that is not the D2 signature (pinned tests use horizontal chords)"),
 ("c17_rect_contains_disc_radius", "C17", ["C17", "C12"], P + "RectangularRegion.py", "                (otherRegion.cx + otherRegion.r <= self.x2) and", "                (otherRegion.cx <= self.x2) and",
  "rectangle-contains-disc ignores the radius on the right side"),
 ("c18_subcode_zero_dropped", "C18", ["C18"], P + "GcodeParser.py", "                self.gcode if (self._subCode is None) else self.gcode + \".\" + str(self._subCode)", "                self.gcode if (not self._subCode) else self.gcode + \".\" + str(self._subCode)",
  "sub-code 0 dropped by stringify (G1.0 -> G1)"),
 ("c19_first_value_wins", "C19", ["C19"], P + "GcodeHandlers.py", "                elif (label == \"X\"):\n                    x = value\n                elif (label == \"Y\"):\n                    y = value\n                elif (label == \"Z\"):\n                    z = value\n\n        return self.state.processLinearMoves(cmd, extruderPosition, feedRate, z, x, y)", "                elif (label == \"X\" and x is None):\n                    x = value\n                elif (label == \"Y\"):\n                    y = value\n                elif (label == \"Z\"):\n                    z = value\n\n        return self.state.processLinearMoves(cmd, extruderPosition, feedRate, z, x, y)",
  "first X value wins in G0/G1"),
 ("c19_no_leading_dot", "C19", ["C19"], P + "GcodeParser.py", "PAT_SIGNED_FLOAT = r\"[-+]?[0-9]*\\.?[0-9]+\"", "PAT_SIGNED_FLOAT = r\"[-+]?[0-9]+\\.?[0-9]*\"",
  "numbers with a leading dot no longer parse"),
 ("c20_hardcoded_lf", "C20", ["C20"], P + "StreamProcessor.py", "            if (lines):\n                return self.eol.join(lines) + self.eol", "            if (lines):\n                return \"\\n\".join(lines) + \"\\n\"",
  "LF hard-coded when a line is rewritten: wrong in CRLF files"),
 ("g01_extended_codes_module_scope", "C06", ["C06", "C10"], P + "__init__.py",
  ["LOG_MODE_BOTH = \"both\"\n", "        extendedExcludeGcodes = {}\n        for val in self._settings.get"],
  ["LOG_MODE_BOTH = \"both\"\n\n# table of extended G-codes, rebuilt on every settings update\n_EXTENDED_GCODES = {}\n", "        extendedExcludeGcodes = _EXTENDED_GCODES\n        for val in self._settings.get"],
  "the local table built in _handleSettingsUpdated hoisted to module scope and never cleared: codes removed from the settings keep being withheld (state lives outside every instance, shared by every plugin object in the process)"),
 ("g02_script_list_default_argument", "C06", ["C06", "C10"], P + "__init__.py",
  ["    def _splitGcodeScript(self, gcodeString):", "        gcodeCommands = []\n\n        for gcode in self.gcodeHandlers"],
  ["    def _splitGcodeScript(self, gcodeString, gcodeCommands=[]):", "        for gcode in self.gcodeHandlers"],
  "script splitter collects into a mutable default argument: enter and exit script become one shared, growing list"),
 ("g03_pending_commands_class_attribute", "C20", ["C20", "C06", "C10"], P + "ExcludeRegionState.py",
  ["    def __init__(self, logger):", "        self.pendingCommands = OrderedDict()\n"],
  ["    pendingCommands = OrderedDict()\n\n    def __init__(self, logger):", "        self.pendingCommands.clear()\n"],
  "deferred commands kept in a class attribute (cleared, never re-created): shared by the live state and the stream processor's deep copy, and by every plugin object"),
 ("c20_shallow_copy", "C20", ["C20"], P + "StreamProcessor.py", "            copy.deepcopy(gcodeHandlers.state),", "            copy.copy(gcodeHandlers.state),",
  "shallow copy: the live position objects are shared with the stream processor"),
]


def main():
    os.makedirs("/root/scratch", exist_ok=True)
    wt = tempfile.mkdtemp(prefix="mk_", dir="/root/scratch"); os.rmdir(wt)
    subprocess.check_call(["git", "-C", "/repo", "worktree", "add", "-q", "--detach", wt, "HEAD"])
    try:
        for name, prop, checks, path, old, new, what in M:
            subprocess.check_call(["git", "-C", wt, "checkout", "-q", "--", "."])
            r = subprocess.run(["python3", os.path.join(VERIF, "tools", "crlf_edit.py"), os.path.join(wt, path)],
                               input=json.dumps([[old, new]] if isinstance(old, str) else [list(x) for x in zip(old, new)]),
                               universal_newlines=True, stderr=subprocess.PIPE)
            if r.returncode:
                print("FAILED", name, r.stderr[:300]); continue
            d = os.path.join(VERIF, "mutants", name); os.makedirs(d, exist_ok=True)
            diff = subprocess.run(["git", "-C", wt, "diff", "--", "octoprint_excluderegion"], stdout=subprocess.PIPE).stdout
            open(os.path.join(d, "patch.diff"), "wb").write(diff)
            json.dump(dict(id=name, property=prop, checks=checks, needs=what, origin="own catalogue (DESIGN section 9)"),
                      open(os.path.join(d, "meta.json"), "w"), indent=1)
            print("ok", name)
    finally:
        subprocess.call(["git", "-C", "/repo", "worktree", "remove", "--force", wt])
        subprocess.call(["git", "-C", "/repo", "worktree", "prune"])

if __name__ == "__main__":
    main()
