#!/usr/bin/env python3
"""Fold notes.md and result.json into seeded/<id>/meta.json (property, what it needs, what was run)."""
import json, os, re, sys
ROOT = os.path.dirname(os.path.dirname(os.path.abspath(__file__)))
for base in ("seeded", "mutants"):
    d0 = os.path.join(ROOT, base)
    for name in sorted(os.listdir(d0)):
        d = os.path.join(d0, name)
        mp = os.path.join(d, "meta.json")
        if not os.path.exists(mp):
            continue
        meta = json.load(open(mp))
        notes = open(os.path.join(d, "notes.md")).read() if os.path.exists(os.path.join(d, "notes.md")) else ""
        if notes and meta.get("needs", "see notes.md") == "see notes.md":
            first = [l.strip() for l in notes.splitlines() if l.strip() and not l.startswith("#")]
            meta["needs"] = " ".join(first[:3])[:600]
        rp = os.path.join(d, "result.json")
        if os.path.exists(rp):
            r = json.load(open(rp))
            meta["ran"] = dict(
                how="tools/run_seeded.py: scratch worktree of /repo HEAD under /root/scratch, git apply patch.diff, "
                    "tools/baseline.py (416 pinned tests), demo.py (if any), ./check <ID> --tier quick with "
                    "VERIF_REPO=<worktree>, worktree removed",
                baseline_still_green=r.get("baseline_ok"), demo_fails_with_patch=r.get("demo_fails_with_patch"),
                detected_by=r.get("detected_by"),
                first_violation={k: v.get("first") for k, v in r.get("checks", {}).items() if v.get("rc") == 1})
        json.dump(meta, open(mp, "w"), indent=1)
print("done")
