#!/bin/bash
# collect_seed.sh NN  -- copy /tmp/wt_cNN/_seed/{a,b} into /verif/seeded/cNN{a,b} and remove the agent's worktree
nn=$1
for v in a b; do
  src=/tmp/wt_c$nn/_seed/$v
  [ -f $src/patch.diff ] || { echo "no $src/patch.diff"; continue; }
  dst=/verif/seeded/c$nn$v
  mkdir -p $dst
  cp $src/patch.diff $dst/patch.diff
  [ -f $src/demo.py ] && cp $src/demo.py $dst/demo.py
  [ -f $src/notes.md ] && cp $src/notes.md $dst/notes.md
  python3 - "$dst" "C$nn" <<'PY'
import json, sys, os
dst, prop = sys.argv[1], sys.argv[2]
notes = open(os.path.join(dst, "notes.md")).read() if os.path.exists(os.path.join(dst, "notes.md")) else ""
json.dump(dict(id=os.path.basename(dst), property=prop, origin="independent sub-agent given only the property text and a scratch worktree",
               needs="see notes.md", checks=[prop]), open(os.path.join(dst, "meta.json"), "w"), indent=1)
PY
done
git -C /repo worktree remove --force /tmp/wt_c$nn 2>/dev/null; git -C /repo worktree prune
