#!/usr/bin/env python3
"""Run the repository's pinned test suite in a given tree and compare with /root/.vp/BASELINE.json.

usage: baseline.py [REPO_DIR]     exit 0 iff every stable_pass test still passes.
"""
import json, os, subprocess, sys, tempfile, xml.etree.ElementTree as ET

def main():
    repo = sys.argv[1] if len(sys.argv) > 1 else "/repo"
    base = json.load(open("/root/.vp/BASELINE.json"))
    want = set(base["stable_pass"])
    fd, path = tempfile.mkstemp(suffix=".xml", dir="/root"); os.close(fd)
    try:
        env = dict(os.environ); env.pop("EXCLUDEREGION_VERIF", None); env["PYTHONDONTWRITEBYTECODE"] = "1"
        subprocess.run(["/venv/bin/python", "-m", "pytest", "-ra", "-q", "-p", "no:cacheprovider", "--timeout=900",
                        "--continue-on-collection-errors", "--junitxml=" + path], cwd=repo, env=env,
                       stdout=subprocess.DEVNULL, stderr=subprocess.DEVNULL)
        passed = set()
        for tc in ET.parse(path).getroot().iter("testcase"):
            if not any(ch.tag in ("failure", "error", "skipped") for ch in tc):
                passed.add("%s::%s" % (tc.get("classname"), tc.get("name")))
    finally:
        os.unlink(path)
    missing = sorted(want - passed)
    print("baseline: %d/%d stable tests pass (%d passed in total)" % (len(want & passed), len(want), len(passed)))
    for m in missing[:20]: print("  NOT PASSING:", m)
    return 1 if missing else 0

if __name__ == "__main__":
    sys.exit(main())
