"""Throw-away prototype explorer: FilterWorld on handlers+state with C01/C03/C04/C05 monitors."""
import sys, logging, time, collections, hashlib, pickle
import os; sys.path.insert(0, os.environ.get("REPO", "/repo")); sys.path.insert(0, "/root/scratch")
from fractions import Fraction as Fr
from ref import Printer, read, inside
from probe import mk, Comm
from octoprint_excluderegion.RectangularRegion import RectangularRegion
from octoprint_excluderegion.CircularRegion import CircularRegion

PTS = {"O1": (10, 10), "O2": (70, 70), "I1": (50, 50), "I2": (55, 45)}
TOL = Fr(1, 10**6)
def fmt(v):
    v = Fr(v)
    if v.denominator == 1: return str(v.numerator)
    return repr(float(v))

class Viol(Exception): pass

class World(object):
    def __init__(self, cfg):
        self.cfg = cfg
        regs = []
        self.regions = []
        if "R" in cfg["regions"]:
            regs.append(RectangularRegion(x1=40, y1=40, x2=60, y2=60, id="r")); self.regions.append(("R", (40, 40, 60, 60)))
        if "D" in cfg["regions"]:
            regs.append(CircularRegion(cx=50, cy=50, r=10, id="d")); self.regions.append(("D", (50, 50, 10)))
        self.h = mk(regs, g90e=cfg.get("g90e", False), enter=(list(cfg["enter"]) if cfg.get("enter") else None), exit=(list(cfg["exit"]) if cfg.get("exit") else None))
        self.A = Printer(cfg.get("g90e", False)); self.B = Printer(cfg.get("g90e", False))
        self.enabled = True; self.episode = False; self.maxDepthB = Fr(0)
        self.comm = Comm()
        for c in ["G28", "G1 X10 Y10 Z1 F3000"]: self.feed(c, check=False)
    # ---- rendering
    def coords(self, P=None, z=None, only=None):
        out = []
        B = self.B
        def one(ax, target):
            if B.abs: v = (Fr(target) - B.shift[ax]) / B.unit
            else: v = (Fr(target) - B.p[ax]) / B.unit
            return ax + fmt(v)
        if P is not None:
            x, y = PTS[P]
            if only in (None, "X"): out.append(one("X", x))
            if only in (None, "Y"): out.append(one("Y", y))
        if z is not None: out.append(one("Z", z))
        return " ".join(out)
    def eword(self, delta):
        B = self.B
        target = B.E + Fr(delta)
        v = (target / B.unit) if B.eabs else (Fr(delta) / B.unit)
        return "E" + fmt(v)
    def render(self, ev):
        k = ev[0]
        if k == "TRAVEL": return "G0 " + self.coords(ev[1])
        if k == "PRINT": return "G1 " + self.coords(ev[1]) + " " + self.eword(1)
        if k == "TRAVELZ": return "G0 " + self.coords(ev[1], ev[2])
        if k == "ZMOVE": return "G1 " + self.coords(None, ev[1])
        if k == "XONLY": return "G0 " + self.coords(ev[1], only="X")
        if k == "RETRACT": return "G1 " + self.eword(-1) + " F1800"
        if k == "RECOVER": return "G1 " + self.eword(1) + " F1800"
        if k == "WIPE": return "G1 " + self.coords(ev[1]) + " " + self.eword(-1)
        if k == "ESET0": return "G92 E0"
        if k == "FWR": return "G10 S1"
        if k == "FWU": return "G11 S1"
        if k == "REL": return "G91"
        if k == "ABS": return "G90"
        if k == "INCH": return "G20"
        if k == "MM": return "G21"
        if k == "AT": return "@ExcludeRegion " + ev[1]
        raise KeyError(ev)
    def enabled_events(self, menu):
        B = self.B; out = []
        for ev in menu:
            k = ev[0]
            d = B.depth()
            if k in ("RETRACT", "WIPE") and (d != 0 or B.fw): continue
            if k == "RECOVER" and d != 1: continue
            if k == "PRINT" and (d != 0 or B.fw): continue
            if k in ("PRINT", "RECOVER") and B.E >= self.cfg.get("emax", 3): continue
            if k == "ESET0" and B.E == 0: continue
            if k == "FWR" and (B.fw or d != 0): continue
            if k == "FWU" and not B.fw: continue
            if k == "REL" and not B.abs: continue
            if k == "ABS" and B.abs: continue
            if k == "INCH" and B.unit != 1: continue
            if k == "MM" and B.unit == 1: continue
            if k == "AT" and ev[1] == "disable" and not self.enabled: continue
            if k == "AT" and ev[1] == "enable" and self.enabled: continue
            if k in ("TRAVEL", "PRINT", "WIPE") and PTS[ev[1]] == (B.p["X"], B.p["Y"]): continue
            out.append(ev)
        return out
    # ---- stepping
    def feed(self, cmd, check=True):
        A, B = self.A, self.B
        if cmd.startswith("@"):
            parts = cmd[1:].split(None, 1)
            self.comm.sent = []
            wasEpisode = self.episode
            self.h.handleAtCommand(self.comm, parts[0], parts[1] if len(parts) > 1 else "")
            if parts[1].startswith("disable"): self.enabled = False; self.episode = False
            if parts[1].startswith("enable"): self.enabled = True
            fwd = list(self.comm.sent)
            az0 = A.p["Z"]
            for c in fwd:
                xy0 = (A.p["X"], A.p["Y"])
                A.execute(c)
                if check and (A.p["X"], A.p["Y"]) != xy0 and abs(A.p["Z"] - max(az0, B.p["Z"])) > TOL:
                    raise Viol("C03 z-order on disable: %s" % fwd)
            if check and wasEpisode: self.check_sync("disable")
            return fwd
        code, sub, words, junk = read(cmd)
        wd = dict(words)
        bE0, bfil0 = B.E, B.fil
        B.execute(cmd)
        self.maxDepthB = max(self.maxDepthB, B.depth())
        isMove = code in ("G0", "G1", "G2", "G3") and any(wd.get(a) is not None for a in "XYZ")
        destIn = self.enabled and (inside(B.p["X"], B.p["Y"], self.regions) or getattr(self, "arcHit", False))
        closing = False
        if isMove:
            if destIn: self.episode = True
            elif self.episode: closing = True; self.episode = False
        res = self.h.handleGcode(cmd, code)
        if res is None: fwd = [cmd]
        elif isinstance(res, tuple): fwd = []
        else: fwd = list(res)
        az0 = A.p["Z"]
        for c in fwd:
            xyz0 = (A.p["X"], A.p["Y"], A.p["Z"]); fil0 = A.fil; d0 = A.depth(); fw0 = A.fw
            A.execute(c)
            if not check: continue
            moved = (A.p["X"], A.p["Y"], A.p["Z"]) != xyz0
            if self.enabled and (A.p["X"], A.p["Y"]) != xyz0[:2] and inside(A.p["X"], A.p["Y"], self.regions):
                raise Viol("C01 moved into region by %r (for %r)" % (c, cmd))
            if self.episode and (moved or A.fil > fil0 + TOL):
                raise Viol("C01 motion/extrusion inside episode by %r (for %r)" % (c, cmd))
            if closing and (A.p["X"], A.p["Y"]) != xyz0[:2] and abs(A.p["Z"] - max(az0, B.p["Z"])) > TOL:
                raise Viol("C03 z-order: travel at Z=%s, expected %s: %s" % (A.p["Z"], max(az0, B.p["Z"]), fwd))
            if A.fil > fil0 + TOL and (A.p["X"], A.p["Y"]) != xyz0[:2]:
                # a printing move extrudes
                if abs(d0 - self._bdepth0) > TOL or fw0 != self._bfw0:
                    raise Viol("C05 printing move %r extrudes at depth A=%s B=%s fw A=%s B=%s" % (c, d0, self._bdepth0, fw0, self._bfw0))
            if c == cmd and isMove and not self.episode and not closing and B.fil - bfil0 > 0:
                if abs((A.fil - fil0) - (B.fil - bfil0)) > TOL:
                    raise Viol("C04 forwarded move %r pushes %s, file says %s (list %s)" % (c, A.fil - fil0, B.fil - bfil0, fwd))
        if check:
            if A.depth() > self.maxDepthB + TOL: raise Viol("C05 deeper than ever requested: A=%s max=%s after %r -> %s" % (A.depth(), self.maxDepthB, cmd, fwd))
            if A.depth() < B.depth() - TOL: raise Viol("C05 shallower than file: A=%s B=%s after %r -> %s" % (A.depth(), B.depth(), cmd, fwd))
            if A.fwDouble: raise Viol("C05 firmware retract parity broken after %r -> %s" % (cmd, fwd))
            if isMove and not destIn: self.check_sync(cmd)
            if not self.episode:
                if abs(A.E - B.E) > TOL: raise Viol("C04 E register A=%s B=%s after %r -> %s" % (float(A.E), float(B.E), cmd, fwd))
        return fwd
    def check_sync(self, why):
        A, B = self.A, self.B
        for ax in "XYZ":
            if abs(A.p[ax] - B.p[ax]) > TOL: raise Viol("C03 %s: A=%s B=%s after %r" % (ax, float(A.p[ax]), float(B.p[ax]), why))
        if A.abs != B.abs or A.unit != B.unit: raise Viol("C03 mode/units")
    def step(self, ev):
        self._bdepth0 = self.B.depth(); self._bfw0 = self.B.fw
        cmd = self.render(ev)
        return cmd, self.feed(cmd)
    def key(self):
        st = self.h.state
        def ax(a): return (a.current, a.homeOffset, a.offset, a.absoluteMode, a.unitMultiplier)
        def pos(p): return None if p is None else tuple(ax(getattr(p, n)) for n in ("X_AXIS", "Y_AXIS", "Z_AXIS", "E_AXIS"))
        lr = st.lastRetraction
        lrk = None if lr is None else (lr.firmwareRetract, lr.extrusionAmount, lr.feedRate, lr.recoverExcluded, lr.allowCombine, lr.originalCommand)
        k = (pos(st.position), st.feedRate, st.feedRateUnitMultiplier, st._exclusionEnabled, st.excluding, lrk, pos(st.lastPosition) if st.excluding else None,
             tuple((g, tuple(v.items()) if hasattr(v, "items") else v) for g, v in st.pendingCommands.items()),
             self.A.key(), self.B.key(), self.enabled, self.episode, self.maxDepthB)
        return hashlib.md5(repr(k).encode()).digest()

def explore(cfg, menu, maxdepth=99, maxstates=2000000, stop_first=True, quiet=False):
    t0 = time.time()
    w0 = World(cfg); seen = {w0.key()}; frontier = [()]; trans = 0; viols = []; depth = 0
    hist_counter = collections.Counter()
    while frontier and depth < maxdepth and len(seen) < maxstates:
        nxt = []
        for hist in frontier:
            w = World(cfg)
            for ev in hist: w.step(ev)
            snap = pickle.dumps(w, -1)
            for ev in w.enabled_events(menu):
                w2 = pickle.loads(snap)
                trans += 1
                try:
                    cmd, fwd = w2.step(ev)
                except Viol as e:
                    tag = str(e).split(" ", 1)[0] + " " + str(e).split(" ", 2)[1]
                    if not any(v[0] == tag for v in viols): viols.append((tag, hist + (ev,), str(e)))
                    continue
                k = w2.key()
                if k not in seen:
                    seen.add(k); nxt.append(hist + (ev,))
        frontier = nxt; depth += 1
        if not quiet: print("depth", depth, "states", len(seen), "frontier", len(frontier), "trans", trans, "viol kinds", len(viols), "%.1fs" % (time.time() - t0))
        if viols and stop_first: break
    return seen, trans, viols, (not frontier)

def show(cfg, hist):
    w = World(cfg)
    for ev in hist:
        try:
            cmd, fwd = w.step(ev); print("   %-22s %-26s -> %s" % (ev, cmd, fwd))
        except Viol as e:
            print("   %-22s %-26s !! %s" % (ev, w.render(ev) if False else "", e)); break

if __name__ == "__main__":
    menu = [("TRAVEL", "O2"), ("TRAVEL", "I1"), ("TRAVEL", "I2"), ("PRINT", "O2"), ("PRINT", "I1"), ("PRINT", "O1"), ("TRAVEL", "O1"),
            ("RETRACT",), ("RECOVER",), ("ZMOVE", 2), ("ZMOVE", 1), ("TRAVELZ", "I1", 2), ("ESET0",)]
    cfg = {"regions": "R", "emax": 2}
    seen, trans, viols, fix = explore(cfg, menu, maxdepth=int(sys.argv[1]) if len(sys.argv) > 1 else 6, stop_first=False)
    print("states", len(seen), "transitions", trans, "fixpoint", fix)
    for tag, hist, msg in viols:
        print("VIOL", tag, msg); show(cfg, hist)
