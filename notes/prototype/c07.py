"""Prototype: value-stress exploration; every synthesized command must match the strict grammar."""
import sys, re, itertools, time
sys.path.insert(0, "/root/scratch")
from probe import *
GRAMMAR = re.compile(r"^[GM]\d+(\.\d+)?( [A-Z](-?\d+(\.\d+)?)?)*$")
cmds = ["G91", "G90", "G20", "G21", "G1 X0.1", "G1 X0.2", "G1 X-0.3", "G1 X50 Y40", "G1 X70 Y65", "G1 Y0.00001", "G92 E0.00001", "G92 E10000000000000000", "G1 E-0.00002", "G1 E0.00002",
        "G1 E-1 F1800", "G1 E1", "G1 F0.5", "G1 F100000000000000000000", "M204 S0.00001", "M204 T123456789012345678", "G1 Z0.3", "G1 Z-0.1", "G1 Z-0.2", "G10", "G11"]
D = int(sys.argv[1]); bad = {}; n = 0; synth = 0; t0 = time.time()
for seq in itertools.product(cmds, repeat=D):
    h = mk([RectangularRegion(x1=40, y1=30, x2=60, y2=50, id="r")], enter=["M117 in"], exit=["M117 out"])
    for c in ["G28", "G1 X10 Y10 Z1 F3000"]: h.handleGcode(c, c.split()[0])
    for c in seq:
        n += 1
        try: r = h.handleGcode(c, c.split()[0])
        except Exception as e: bad.setdefault("EXC %r" % e, seq); break
        if isinstance(r, list):
            for o in r:
                if o == c or o in ("M117 in", "M117 out"): continue
                synth += 1
                if not GRAMMAR.match(o): bad.setdefault("grammar: " + re.sub(r"\d", "9", o)[:60], (seq, o))
print("cmds", n, "synth", synth, "%.1fs" % (time.time() - t0))
for k, v in list(bad.items())[:15]: print(k, "|", v)
