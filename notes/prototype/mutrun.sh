#!/bin/bash
# usage: mutrun.sh <file> <python-expr-old> <python-expr-new> -- <command...>   (applies on copy of $BASE)
BASE=${BASE:-/repo}
rm -rf /root/scratch/mwork && cp -r $BASE /root/scratch/mwork && rm -rf /root/scratch/mwork/.git
/venv/bin/python - "$1" "$2" "$3" <<'PY'
import sys
fn, old, new = sys.argv[1:4]
p = "/root/scratch/mwork/octoprint_excluderegion/" + fn
s = open(p, newline="").read()
crlf = "\r\n" in s
old = old.encode().decode("unicode_escape"); new = new.encode().decode("unicode_escape")
if crlf: old = old.replace("\n", "\r\n"); new = new.replace("\n", "\r\n")
assert s.count(old) == 1, ("pattern count", s.count(old))
open(p, "w", newline="").write(s.replace(old, new))
PY
shift 4
REPO=/root/scratch/mwork "$@"
rm -rf /root/scratch/mwork
