import sys, os, itertools, time, io
sys.path.insert(0, "/root/scratch")
from probe import *
from octoprint_excluderegion.StreamProcessor import StreamProcessor
vals = ["", "5", "-5", "+5", ".5", "5.", "0", "1000000000000000", "0.0000001", "50", "70"]
cmds = set()
for code in ["G0", "G1"]:
    for x in ["", "X50", "X70", "X", "X-5", "X1000000000000000", "X0.0000001", "X5 X50"]:
        for rest in ["", "Y50", "Y70 Z2", "E5", "E-5", "F0", "F", "E1 E2", "Z"]:
            cmds.add((code + " " + x + " " + rest).strip())
for code in ["G2", "G3"]:
    for end in ["", "X0 Y0", "X-5 Y0", "X10 Y0", "X50 Y50", "X5 Y5 Z2 E1", "X10"]:
        for ctr in ["", "I0 J0", "I5 J0", "I5", "J-5", "R0", "R1", "R5", "R-5", "R500", "I5 J5 R5", "I0.0000001", "I1000 J0", "R", "I J"]:
            cmds.add((code + " " + end + " " + ctr).strip())
for c in ["G10", "G10 S1", "G10 P1", "G10 L2 X5", "G11", "G11 S1", "G20", "G21", "G28", "G28 X", "G28 X0 Y0", "G28 W", "G90", "G91",
          "G92", "G92 E0", "G92 X5 Y5 Z5 E5", "G92 X", "G92 X1000000000000000", "M206", "M206 X5", "M206 X Y Z", "M206 X-5 Z0.5",
          "G4 P100", "M117 hello world", "M117", "M204 S500", "M204 S", "M205 X5 Y", "M106 S255", "M73 P5 R10", "M999", "T0", "T1", "G5 X1", "M82", "M83", "G29", "M400", "G38.2 Z5", "M204 Hello ; x"]:
    cmds.add(c)
cmds = sorted(cmds)
print("alphabet", len(cmds))
D = int(sys.argv[1])
errs = {}
def shape_ok(r):
    if r is None: return True
    if isinstance(r, tuple): return r == (None,)
    if isinstance(r, list): return len(r) > 0 and all(isinstance(x, str) and x for x in r)
    return False
n = 0; t0 = time.time()
from octoprint.util.comm import gcode_and_subcode_for_cmd
GC = {c: gcode_and_subcode_for_cmd(c) for c in cmds}
for regs in ([], [R]):
  for pre in ([], ["G1 X50 Y50"]):
    for seq in itertools.product(cmds, repeat=D):
        h = mk(list(regs))
        for c in ["G28", "G1 X10 Y10 Z1 F3000"] + pre: h.handleGcode(c, c.split()[0])
        for c in seq:
            n += 1
            try:
                g, sc = GC[c]
                if g is None: continue
                r = h.handleGcode(c, g, sc)
                if not shape_ok(r):
                    errs.setdefault("shape %r" % (r,), (seq, c))
            except Exception as e:
                errs.setdefault("%s: %s" % (type(e).__name__, e), (seq, c)); break
print("runs", n, "%.1fs" % (time.time() - t0))
for k, v in errs.items(): print(k, "|", v)
