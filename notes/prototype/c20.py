import sys, os, itertools, time, io, copy
sys.path.insert(0, "/root/scratch")
from probe import *
from octoprint_excluderegion.StreamProcessor import StreamProcessor
LINES = ["G1 X50 Y50", "G1 X70 Y70 E1", "G28 X Y ; home", "G92 E0 ; c", "M117 hi ; msg", "M204 S5", "N3 G1 X10 Y10*7 ; go", "  G1 X20 Y20", "", "   ", "; only comment",
         "@ExcludeRegion disable x", "@ExcludeRegion enable", "@foo", "G10 P1 ; tool", "G10", "G11", "G1 E-1", "g1 x50 y50", "G2 X30 Y10 I10 J0 ; arc", "T0", "M999 ; unk"]
def split_line(line):
    body = line
    eol = ""
    for e in ("\r\n", "\n", "\r"):
        if body.endswith(e): eol = e; body = body[:-len(e)]; break
    code = body.split(";", 1)[0].strip()
    if "*" in code: code = code.split("*", 1)[0].strip()
    if code[:1] in "Nn" and len(code) > 1 and code[1].isdigit():
        i = 1
        while i < len(code) and code[i].isdigit(): i += 1
        code = code[i:].strip()
    return code, eol
D = int(sys.argv[1])
errs = {}; n = 0; t0 = time.time()
def norm(cmd):
    c = cmd.strip()
    # code normalisation as StreamProcessor does: "G1 X.." with upper-case code letter
    return c
for eol in ("\n", "\r\n"):
  for lastTerm in (True, False):
    for seq in itertools.product(LINES, repeat=D):
        live = mk([R]); 
        for c in ["G28", "G1 X10 Y10 Z1 F3000"]: live.handleGcode(c, c.split()[0])
        before = pickle_key = repr(live.state.position) + repr(live.state.excluding)
        sp = StreamProcessor(io.BytesIO(b""), live)
        twin = GcodeHandlers(copy.deepcopy(live.state), log)
        comm = Comm()
        for idx, body in enumerate(seq):
            n += 1
            line = body + (eol if (lastTerm or idx < len(seq) - 1) else "")
            try:
                out = sp.process_line(line)
            except Exception as e:
                errs.setdefault("EXC %s %s" % (type(e).__name__, e), (seq, line)); break
            code, leol = split_line(line)
            expect = None  # None = untouched
            if code.startswith("@"):
                parts = code[1:].split(None, 1); comm.sent = []
                handled = twin.handleAtCommand(comm, parts[0] if parts else "", parts[1] if len(parts) > 1 else "")
                if handled: expect = list(comm.sent)
            elif code and code[0] in "GgMmTt":
                # what OctoPrint-style caller would pass: upper-cased code word
                import re
                m = re.match(r"([GgMmTt])\s*(\d+)(?:\.(\d+))?\s*(.*)$", code)
                if m:
                    g = m.group(1).upper() + str(int(m.group(2)))
                    cmdtxt = g + ("." + m.group(3) if m.group(3) else "") + ((" " + m.group(4)) if m.group(4) else "")
                    r = twin.handleGcode(cmdtxt, g, int(m.group(3)) if m.group(3) else None)
                    if r is not None:
                        expect = [] if isinstance(r, tuple) else list(r)
            if expect is None:
                if out != line: errs.setdefault("untouched line altered", (seq, line, out))
            else:
                if not expect:
                    if out is not None: errs.setdefault("expected omission", (seq, line, out))
                else:
                    if out is None or not out.endswith(eol): errs.setdefault("eol", (seq, line, out))
                    else:
                        got = out[:-len(eol)].split(eol)
                        if [g.strip() for g in got] != [e.strip() for e in expect]:
                            errs.setdefault("commands differ", (seq, line, out, expect))
        if repr(live.state.position) + repr(live.state.excluding) != before: errs.setdefault("live modified", (seq,))
print("lines", n, "%.1fs" % (time.time() - t0))
for k, v in errs.items(): print(k, "|", v)
