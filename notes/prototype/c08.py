"""Prototype: metamorphic re-encoding (C08) as a product of two handler-level worlds."""
import sys, itertools, time
from explore import *
import explore as E

PTSM = {"O1": (10, 10), "O2": (70, 65), "O3": (10, 62), "I1": (50, 40), "I2": (55, 35), "N": (38, 42)}
E.PTS.clear(); E.PTS.update(PTSM)

def fmt6(v):
    v = Fr(v)
    if v.denominator == 1: return str(v.numerator)
    s = "%.6f" % float(v)
    return s.rstrip("0").rstrip(".") if "." in s else s
E.fmt = fmt6

class W8(World):
    """World whose regions may be translated and whose encoding can be switched."""
    def __init__(self, cfg, shift=(0, 0)):
        self.shiftv = shift
        World.__init__(self, cfg)
    def coords(self, P=None, z=None, only=None):
        # translate target points by shiftv
        out = []; B = self.B
        def one(ax, target):
            if B.abs: v = (Fr(target) - B.shift[ax]) / B.unit
            else: v = (Fr(target) - B.p[ax]) / B.unit
            return ax + fmt6(v)
        if P is not None:
            x, y = PTSM[P]; x += self.shiftv[0]; y += self.shiftv[1]
            out.append(one("X", x)); out.append(one("Y", y))
        if z is not None: out.append(one("Z", z))
        return " ".join(out)

def mkworld(cfg, shift):
    w = W8.__new__(W8)
    w.shiftv = shift
    # build like World.__init__ but with translated region
    from octoprint_excluderegion.RectangularRegion import RectangularRegion
    w.cfg = cfg
    x1, y1, x2, y2 = 40 + shift[0], 30 + shift[1], 60 + shift[0], 50 + shift[1]
    w.regions = [("R", (x1, y1, x2, y2))]
    w.h = mk([RectangularRegion(x1=x1, y1=y1, x2=x2, y2=y2, id="r")])
    w.A = Printer(False); w.B = Printer(False)
    w.enabled = True; w.episode = False; w.maxDepthB = Fr(0); w.comm = Comm()
    for c in ["G28", "G1 X%d Y%d Z1 F3000" % (10 + shift[0], 10 + shift[1])]: w.feed(c, check=False)
    return w

def classify(cmd, fwd):
    if fwd == [cmd]: return "fwd"
    if not fwd: return "drop"
    return "rewrite"

def run(path, T, k):
    """path: list of abstract events; T: encoding; k: switch position. returns None or message"""
    cfg = dict(regions="R", emax=9)
    base = mkworld(cfg, (0, 0)); var = mkworld(cfg, (16, -8) if T == "translate" else (0, 0))
    for idx, ev in enumerate(path):
        if idx == k:
            if T == "inch": var.feed("G20", check=False)
            elif T == "rel": var.feed("G91", check=False)
            elif T == "g92":
                if var.episode: return "skip"
                var.feed("G92 X100 Y200 Z5", check=False)
        try:
            c1, f1 = base.step(ev); c2, f2 = var.step(ev)
        except Viol as e:
            return "monitor: %s" % e
        if classify(c1, f1) != classify(c2, f2) or base.episode != var.episode:
            return "decision differs at %d %r: %r->%r vs %r->%r" % (idx, ev, c1, f1, c2, f2)
        if not base.episode:
            for ax, s in zip("XYZ", (var.shiftv[0], var.shiftv[1], 0)):
                if abs(base.A.p[ax] + s - var.A.p[ax]) > Fr(1, 10**4): return "position differs at %d %r axis %s: %s vs %s" % (idx, ev, ax, float(base.A.p[ax]), float(var.A.p[ax]))
    return None

if __name__ == "__main__":
    D = int(sys.argv[1])
    menu = [("TRAVEL", "O2"), ("TRAVEL", "I1"), ("PRINT", "I2"), ("PRINT", "O1"), ("TRAVEL", "N"), ("TRAVELZ", "I1", 2), ("ZMOVE", 1), ("RETRACT",), ("RECOVER",)]
    n = 0; errs = {}; skipped = 0; t0 = time.time()
    for L in range(1, D + 1):
        for path in itertools.product(menu, repeat=L):
            # validity w.r.t. enabledness: check on a scratch base world
            w = mkworld(dict(regions="R", emax=9), (0, 0)); ok = True
            for ev in path:
                if ev not in w.enabled_events(menu): ok = False; break
                try: w.step(ev)
                except Viol: break
            if not ok: continue
            for T in ("inch", "rel", "translate"):
                for k in (range(0, L) if T != "translate" else [0]):
                    n += 1
                    r = run(list(path), T, k)
                    if r == "skip": skipped += 1
                    elif r: errs.setdefault((T, r.split(" at ")[0]), (path, k, r))
    print("pairs", n, "skipped", skipped, "%.1fs" % (time.time() - t0))
    for k, v in errs.items(): print(k, v)
