"""Throw-away prototype: rs274 reader + reference printer (exact)."""
from fractions import Fraction as Fr

def read(cmd):
    """Return (code, sub, [(LETTER, Fraction|None)], junk:bool). Exponent-blind."""
    s = cmd.split(";", 1)[0].strip()
    i = 0; n = len(s)
    def skip():
        nonlocal i
        while i < n and s[i] == " ": i += 1
    skip()
    if i >= n or s[i].upper() not in "GMT": return (None, None, [], False)
    letter = s[i].upper(); i += 1; skip()
    j = i
    while i < n and s[i].isdigit(): i += 1
    if j == i: return (None, None, [], False)
    code = letter + str(int(s[j:i])); sub = None
    if i < n and s[i] == "." and i + 1 < n and s[i+1].isdigit():
        i += 1; j = i
        while i < n and s[i].isdigit(): i += 1
        sub = int(s[j:i])
    words = []; junk = False
    while True:
        skip()
        if i >= n: break
        c = s[i]
        if not c.isalpha():
            junk = True; i += 1; continue
        i += 1; skip(); j = i
        if i < n and s[i] in "+-": i += 1
        d0 = i
        while i < n and s[i].isdigit(): i += 1
        if i < n and s[i] == ".":
            i += 1
            while i < n and s[i].isdigit(): i += 1
        txt = s[j:i]
        if any(ch.isdigit() for ch in txt):
            words.append((c.upper(), Fr(txt if not txt.endswith(".") else txt + "0") if not txt.startswith((".", "-.", "+.")) else Fr(txt.replace(".", "0.", 1))))
        else:
            i = j
            words.append((c.upper(), None))
    return (code, sub, words, junk)

class Printer(object):
    def __init__(self, g90e=False):
        self.p = {"X": None, "Y": None, "Z": None}   # physical mm
        self.shift = {"X": Fr(0), "Y": Fr(0), "Z": Fr(0)}
        self.abs = True; self.eabs = True; self.unit = Fr(1); self.g90e = g90e
        self.E = Fr(0); self.fil = Fr(0); self.hwm = Fr(0); self.fw = False; self.F = None
        self.fwDouble = 0
    def key(self):
        return (tuple(sorted(self.p.items())), tuple(sorted(self.shift.items())), self.abs, self.eabs, self.unit, self.E, self.hwm - self.fil, self.fw, self.F)
    def depth(self): return self.hwm - self.fil
    def execute(self, cmd):
        code, sub, words, junk = read(cmd)
        w = {}
        for l, v in words: w[l] = v
        if code in ("G0", "G1", "G2", "G3"):
            for ax in "XYZ":
                if w.get(ax) is not None:
                    v = w[ax] * self.unit
                    self.p[ax] = (v + self.shift[ax]) if self.abs else (self.p[ax] + v)
            if w.get("E") is not None:
                v = w["E"] * self.unit
                newE = v if self.eabs else self.E + v
                self.fil += newE - self.E; self.E = newE
                if self.fil > self.hwm: self.hwm = self.fil
            if w.get("F") is not None and w["F"] > 0: self.F = w["F"] * self.unit
        elif code == "G10":
            if "P" in w or "L" in w: return
            if self.fw: self.fwDouble += 1
            self.fw = True
        elif code == "G11":
            if not self.fw: self.fwDouble += 1
            self.fw = False
        elif code == "G20": self.unit = Fr(254, 10)
        elif code == "G21": self.unit = Fr(1)
        elif code == "G28":
            axes = [a for a in "XYZ" if a in w] or list("XYZ")
            for a in axes: self.p[a] = Fr(0); self.shift[a] = Fr(0)
        elif code == "G90":
            self.abs = True
            if self.g90e: self.eabs = True
        elif code == "G91":
            self.abs = False
            if self.g90e: self.eabs = False
        elif code == "G92":
            for ax in "XYZ":
                if w.get(ax) is not None: self.shift[ax] = self.p[ax] - w[ax] * self.unit
            if w.get("E") is not None: self.E = w["E"] * self.unit
    def logical(self, ax): return (self.p[ax] - self.shift[ax]) / self.unit

def in_rect(x, y, r): return r[0] <= x <= r[2] and r[1] <= y <= r[3]
def in_disc(x, y, c): return (x - c[0]) ** 2 + (y - c[1]) ** 2 <= c[2] ** 2
def inside(x, y, regions):
    for kind, g in regions:
        if (in_rect if kind == "R" else in_disc)(x, y, g): return True
    return False
