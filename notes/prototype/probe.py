import sys, logging
import os; sys.path.insert(0, os.environ.get("REPO", "/repo"))
from octoprint_excluderegion.ExcludeRegionState import ExcludeRegionState
from octoprint_excluderegion.GcodeHandlers import GcodeHandlers
from octoprint_excluderegion.RectangularRegion import RectangularRegion
from octoprint_excluderegion.CircularRegion import CircularRegion
from octoprint_excluderegion.ExcludedGcode import ExcludedGcode
from octoprint_excluderegion.AtCommandAction import AtCommandAction
log = logging.getLogger("probe"); log.addHandler(logging.NullHandler()); log.setLevel(logging.ERROR); log.propagate=False

class Comm:
    def __init__(s): s.sent=[]
    def isStreaming(s): return False
    def sendCommand(s, c, **kw): s.sent.append(c)

def mk(regions=(), g90e=False, enter=None, exit=None):
    st = ExcludeRegionState(log)
    st.g90InfluencesExtruder = g90e
    st.enteringExcludedRegionGcode = enter
    st.exitingExcludedRegionGcode = exit
    st.extendedExcludeGcodes = {g: ExcludedGcode(g, m, "") for g, m in [("G4","exclude"),("M204","merge"),("M117","last"),("M106","first")]}
    st.atCommandActions = {"ExcludeRegion":[AtCommandAction("ExcludeRegion","^\\s*(enable|on)(\\s|$)","enable_exclusion",""),AtCommandAction("ExcludeRegion","^\\s*(disable|off)(\\s|$)","disable_exclusion","")]}
    for r in regions: st.addRegion(r)
    return GcodeHandlers(st, log)

def run(h, prog):
    comm = Comm()
    for c in prog:
        if c.startswith("@"):
            parts = c[1:].split(None,1)
            comm.sent=[]
            h.handleAtCommand(comm, parts[0], parts[1] if len(parts)>1 else "")
            print("%-28s => AT %r" % (c, comm.sent))
        else:
            try:
                r = h.handleGcode(c, c.split()[0].upper().split(".")[0])
            except Exception as e:
                r = "EXC %r" % e
            print("%-28s => %r" % (c, r))

R = RectangularRegion(x1=40,y1=40,x2=60,y2=60,id="r1")
if __name__ == "__main__":
    print("--- C14 probe: tracking while disabled")
    h = mk([R]); run(h, ["G28","G1 X10 Y10 Z1 F3000","@ExcludeRegion disable","G1 X50 Y50","@ExcludeRegion enable","G1 X70","G1 X50"])
    print(h.state.position.X_AXIS.current, h.state.position.Y_AXIS.current)
    print("--- C03 probe: entering move with Z")
    h = mk([R]); run(h, ["G28","G1 X10 Y10 Z5 F3000","G1 X50 Y50 Z1","G1 X70 Y70"])
    print("--- C03 probe: relative mode exit")
    h = mk([R]); run(h, ["G28","G1 X10 Y10 Z5 F3000","G91","G1 X40 Y40","G1 X20 Y20"])
    print("--- C04 probe: owed recovery + extruding move")
    h = mk([R]); run(h, ["G28","G1 X10 Y10 Z1 F3000","G1 X30 Y30 E5","G1 X50 Y50 E6", "G1 E5 F1800", "G1 X55 Y55 F3000", "G1 E6 F1800", "G1 X70 Y70 E7 F3000", "G1 X80 Y80 E8"])
    print("--- C07 probe: exponent")
    h = mk([R]); run(h, ["G28","G91","G1 X0.1 Y10 F3000","G1 X0.2","G1 X-0.3","G90","G92 E0.00001","G1 X50 Y50","G1 X0 Y70"])
    print("--- C09 probe: degenerate arc")
    h = mk([R]); run(h, ["G28","G3 X-5 Y0 I5 J0", "G2 X0 Y0 R0", "G2 X10 Y0 R1", "G2 I0 J0", "G2 X5", "G3 R5"])
