import sys, os, itertools, time
sys.path.insert(0, "/root/scratch")
from probe import *
from ref import read, Printer
from octoprint_excluderegion.GcodeParser import GcodeParser
from fractions import Fraction as Fr
letters = ["X", "y", "E", "F", "Z"]
nums = ["", "5", "-5", "+5", "5.", ".5", "-.5", "05.50", "0"]
seps = ["", " "]
W = int(sys.argv[1])
p = GcodeParser(); errs = {}; n = 0; t0 = time.time()
words = [(l, s1, v) for l in letters for s1 in seps for v in nums if not (v == "" and s1 == " ")]
for k in range(1, W + 1):
    for combo in itertools.product(words, repeat=k):
        for sep in seps:
            # a valueless flag followed directly by next word letter without space is still legal ("XY5")
            text = sep.join(l + s1 + v for l, s1, v in combo)
            n += 1
            exp = [(l.upper(), (None if v == "" else Fr(v if not v.endswith(".") else v + "0") if not v.lstrip("+-").startswith(".") else Fr(v.replace(".", "0.", 1)))) for l, s1, v in combo]
            got = [(a, (None if b is None else Fr(repr(b)))) for a, b in p.parse("G1 " + text).parameterItems() if a != ""]
            if got != exp: errs.setdefault("parser", (text, got, exp))
            myread = read("G1 " + text)[2]
            if myread != exp: errs.setdefault("REFERENCE-READER-BUG", (text, myread, exp))
            # handler level: tracked position vs reference printer
            for code in ("G1", "G92"):
                h = mk([]); B = Printer()
                for c in ["G28", "G1 X10 Y10 Z1 E1 F3000"]: h.handleGcode(c, c.split()[0]); B.execute(c)
                cmd = code + " " + text
                try:
                    h.handleGcode(cmd, code)
                except Exception as e:
                    errs.setdefault("EXC " + repr(e), cmd); continue
                B.execute(cmd)
                pos = h.state.position
                if code == "G1":
                    for ax, a in (("X", pos.X_AXIS), ("Y", pos.Y_AXIS), ("Z", pos.Z_AXIS)):
                        if abs(Fr(a.current) - B.p[ax]) > Fr(1, 10**9): errs.setdefault("handler %s %s" % (code, ax), (cmd, a.current, float(B.p[ax])))
                if abs(Fr(pos.E_AXIS.current) - B.E) > Fr(1, 10**9): errs.setdefault("handler %s E" % code, (cmd, pos.E_AXIS.current, float(B.E)))
print("texts", n, "%.1fs" % (time.time() - t0))
for k, v in errs.items(): print(k, v)
