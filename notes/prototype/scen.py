import sys
from explore import *
name = sys.argv[1]; maxd = int(sys.argv[2]) if len(sys.argv) > 2 else 30
base = [("TRAVEL", "O2"), ("TRAVEL", "I1"), ("TRAVEL", "I2"), ("PRINT", "O2"), ("PRINT", "I1"), ("PRINT", "O1"), ("TRAVEL", "O1")]
S = {
 "wipe": (dict(regions="R", emax=2), base + [("RETRACT",), ("RECOVER",), ("WIPE", "I2"), ("WIPE", "O2"), ("ESET0",)]),
 "fw": (dict(regions="R", emax=2), base + [("FWR",), ("FWU",), ("ESET0",)]),
 "at": (dict(regions="RD", emax=1), base + [("RETRACT",), ("RECOVER",), ("AT", "disable"), ("AT", "enable"), ("XONLY", "O2"), ("XONLY", "I1")]),
 "rel": (dict(regions="R", emax=1), base + [("RETRACT",), ("RECOVER",), ("REL",), ("ABS",), ("ZMOVE", 2), ("ZMOVE", 1), ("TRAVELZ", "I1", 2)]),
 "inch": (dict(regions="R", emax=1), base + [("RETRACT",), ("RECOVER",), ("INCH",), ("MM",), ("ZMOVE", 2), ("ZMOVE", 1)]),
 "relg90e": (dict(regions="R", emax=1, g90e=True), base + [("RETRACT",), ("RECOVER",), ("REL",), ("ABS",)]),
}
cfg, menu = S[name]
seen, trans, viols, fix = explore(cfg, menu, maxdepth=maxd, stop_first=False, quiet=True)
print(name, "states", len(seen), "transitions", trans, "fixpoint", fix)
for tag, hist, msg in viols:
    print("VIOL", tag, msg); show(cfg, hist)
