"""Prototype: deferred-code / script monitor on the handlers-level world."""
import sys
from explore import *
from ref import read
import explore as E

MODES = {"G4": "exclude", "M106": "first", "M117": "last", "M204": "merge"}
class World6(World):
    def __init__(self, cfg):
        World.__init__(self, cfg)
        self.pending = []   # list of [gcode, payload]; payload str or dict
        self.epi_count = 0
    def render(self, ev):
        if ev[0] == "EXT": return ev[1]
        return World.render(self, ev)
    def expected_flush(self):
        out = []
        for g, payload in self.pending:
            out.append((g, payload))
        return out
    def step(self, ev):
        self._bdepth0 = self.B.depth(); self._bfw0 = self.B.fw
        cmd = self.render(ev)
        wasEpisode = self.episode
        pend_before = [(g, dict(p) if isinstance(p, dict) else p) for g, p in self.pending]
        fwd = self.feed(cmd)
        code = read(cmd)[0] if not cmd.startswith("@") else None
        enter = self.cfg.get("enter") or []; exit_ = self.cfg.get("exit") or []
        if not wasEpisode and self.episode:
            # opening move: enter script exactly once, first
            if fwd[:len(enter)] != enter: raise Viol("C06 enter script missing/incorrect: %r" % (fwd,))
            if sum(1 for c in fwd if c in enter) != len(enter): raise Viol("C06 enter script repeated: %r" % (fwd,))
        elif wasEpisode and self.episode:
            if any(c in enter for c in fwd) and enter: raise Viol("C06 enter script inside episode: %r" % (fwd,))
            if code in MODES:
                if fwd: raise Viol("C06 deferred code leaked inside episode: %r -> %r" % (cmd, fwd))
                mode = MODES[code]
                if mode == "first":
                    if not any(g == code for g, _ in self.pending): self.pending.append([code, cmd])
                elif mode == "last":
                    self.pending = [p for p in self.pending if p[0] != code]; self.pending.append([code, cmd])
                elif mode == "merge":
                    old = [p for p in self.pending if p[0] == code]
                    d = old[0][1] if old else {}
                    self.pending = [p for p in self.pending if p[0] != code]
                    for l, v in read(cmd)[2]: d[l] = v
                    self.pending.append([code, d])
        elif wasEpisode and not self.episode:
            # episode ended (move out or disable): flush, exit script, then resync
            exp = pend_before
            i = 0
            for g, payload in exp:
                if i >= len(fwd): raise Viol("C06 missing deferred %r in %r" % (g, fwd))
                got = fwd[i]; i += 1
                if isinstance(payload, dict):
                    c, s, words, junk = read(got)
                    if c != g or dict(words) != payload or len(words) != len(payload): raise Viol("C06 merged command %r != %r" % (got, payload))
                elif got != payload: raise Viol("C06 deferred %r expected %r" % (got, payload))
            if fwd[i:i + len(exit_)] != exit_: raise Viol("C06 exit script missing at %d: %r" % (i, fwd))
            rest = fwd[i + len(exit_):]
            for c in rest:
                if read(c)[0] in MODES or c in exit_ or c in enter: raise Viol("C06 stray deferred/script command after flush: %r" % (fwd,))
            self.pending = []
        else:
            if code in MODES and fwd != [cmd]: raise Viol("C06 code withheld outside episode: %r -> %r" % (cmd, fwd))
            for c in fwd:
                if (c in enter or c in exit_) and c != cmd: raise Viol("C06 script outside episode boundary: %r" % (fwd,))
        return cmd, fwd
    def key(self):
        return hashlib.md5(World.key(self) + repr(self.pending).encode()).digest()

def explore6(cfg, menu, maxdepth):
    E.World = World6
    return explore(cfg, menu, maxdepth=maxdepth, stop_first=False, quiet=True)

if __name__ == "__main__":
    menu = [("TRAVEL", "O2"), ("TRAVEL", "I1"), ("TRAVEL", "O1"), ("WIPE", "I2"), ("AT", "disable"), ("AT", "enable"),
            ("EXT", "G4 P100"), ("EXT", "M106 S255"), ("EXT", "M106 S0"), ("EXT", "M117 a"), ("EXT", "M117 b"), ("EXT", "M204 S500"), ("EXT", "M204 T900 S700"), ("EXT", "M999")]
    cfg = dict(regions="R", emax=1, enter=["M117 in"], exit=["M118 out", "M400"])
    import explore as EE
    # make probe.mk aware of M118? not needed
    seen, trans, viols, fix = explore6(cfg, menu, int(sys.argv[1]))
    print("c06 states", len(seen), "transitions", trans, "fixpoint", fix)
    for tag, hist, msg in viols:
        print("VIOL", msg); 
        w = World6(cfg)
        for ev in hist:
            try: cmd, fwd = w.step(ev); print("    %-24s %-22s -> %s" % (ev, cmd, fwd))
            except Viol as e: print("    %-24s !! %s" % (ev, e)); break
