"""Throw-away prototype: plugin-level world (events, API, hooks) with lifecycle/registry monitors (C11, C12, C13, C15)."""
import sys, os, logging, time, json, pickle, hashlib, tempfile, warnings, collections
warnings.simplefilter("ignore")
sys.path.insert(0, os.environ.get("REPO", "/repo")); sys.path.insert(0, "/root/scratch/proto")
from octoprint.settings import settings as octoprintSettings
_BASEDIR = tempfile.mkdtemp(prefix="ervp")
octoprintSettings(init=True, basedir=_BASEDIR)
import flask
import octoprint_excluderegion as P
RRmod = sys.modules['octoprint_excluderegion.RectangularRegion']; CRmod = sys.modules['octoprint_excluderegion.CircularRegion']  # NB: package attrs are the classes
from octoprint.plugin import plugin_settings
from octoprint.events import Events
from octoprint.util.comm import gcode_and_subcode_for_cmd
from ref import Printer, read, inside

LOG = logging.getLogger("octoprint.plugins.excluderegion"); LOG.addHandler(logging.NullHandler()); LOG.setLevel(logging.ERROR); LOG.propagate = False
APP = flask.Flask("proto")

class Viol(Exception): pass

class User(object):
    def __init__(self, anon): self.anon = anon
    def is_anonymous(self): return self.anon

class PM(object):
    def __init__(self): self.msgs = []
    def send_plugin_message(self, ident, data): self.msgs.append(json.loads(json.dumps(data)))

class Comm(object):
    def __init__(self): self.sent = []; self.streaming = False
    def isStreaming(self): return self.streaming
    def sendCommand(self, c, **kw): self.sent.append(c)

class Uuid(object):
    def __init__(self): self.n = 0
    def uuid4(self):
        self.n += 1; return "u%d" % self.n

GEO = {
 "rA": dict(type="RectangularRegion", x1=40, y1=30, x2=60, y2=50),
 "rBig": dict(type="RectangularRegion", x1=30, y1=20, x2=70, y2=60),
 "rSmall": dict(type="RectangularRegion", x1=45, y1=35, x2=55, y2=45),
 "cIn": dict(type="CircularRegion", cx=50, cy=40, r=5),
 "cBig": dict(type="CircularRegion", cx=50, cy=40, r=30),
 "cTouch": dict(type="CircularRegion", cx=50, cy=40, r=10),   # touches rA's vertical edges exactly, exceeds nothing? (r=10: x 40..60 ok, y 30..50 ok) -> inscribed
}
from fractions import Fraction as Fr
def g_contains_point(g, x, y):
    x, y = Fr(x), Fr(y)
    if g["type"] == "RectangularRegion":
        x1, x2 = sorted((Fr(g["x1"]), Fr(g["x2"]))); y1, y2 = sorted((Fr(g["y1"]), Fr(g["y2"])))
        return x1 <= x <= x2 and y1 <= y <= y2
    return Fr(g["r"]) >= 0 and (x - Fr(g["cx"])) ** 2 + (y - Fr(g["cy"])) ** 2 <= Fr(g["r"]) ** 2
def g_contains(outer, inner):
    if inner["type"] == "RectangularRegion":
        xs = (inner["x1"], inner["x2"]); ys = (inner["y1"], inner["y2"])
        return all(g_contains_point(outer, x, y) for x in xs for y in ys)
    cx, cy, r = Fr(inner["cx"]), Fr(inner["cy"]), Fr(inner["r"])
    if r < 0: return True
    if outer["type"] == "RectangularRegion":
        x1, x2 = sorted((Fr(outer["x1"]), Fr(outer["x2"]))); y1, y2 = sorted((Fr(outer["y1"]), Fr(outer["y2"])))
        return x1 <= cx - r and cx + r <= x2 and y1 <= cy - r and cy + r <= y2
    R = Fr(outer["r"])
    return R >= r and (cx - Fr(outer["cx"])) ** 2 + (cy - Fr(outer["cy"])) ** 2 <= (R - r) ** 2

class PWorld(object):
    def __init__(self, cfg):
        self.cfg = cfg
        self.uuid = Uuid(); self.pm = PM(); self.comm = Comm()
        u = P.ExcludeRegionPlugin()
        u._identifier = "excluderegion"; u._logger = LOG; u._plugin_manager = self.pm; u._plugin_version = "t"
        u._settings = plugin_settings(u._identifier, u.get_settings_defaults(), u.get_settings_preprocessors()[0], u.get_settings_preprocessors()[1])
        u._settings.set_boolean(["clearRegionsAfterPrintFinishes"], cfg.get("clear", False))
        u._settings.set_boolean(["mayShrinkRegionsWhilePrinting"], cfg.get("shrink", False))
        u._settings.set(["enteringExcludedRegionGcode"], cfg.get("enter"))
        u._settings.set(["exitingExcludedRegionGcode"], cfg.get("exit"))
        self.install()
        u.initialize()
        self.u = u
        # reference model
        self.m_homed = False
        self.m_active = False; self.m_regions = []; self.m_clear = cfg.get("clear", False); self.m_shrink = cfg.get("shrink", False)
        self.pm.msgs = []
    def install(self):
        RRmod.uuid = self.uuid; CRmod.uuid = self.uuid
    def __getstate__(self):
        d = dict(self.__dict__); u = d.pop("u")
        d["_state"] = u.state; d["_flags"] = (u._activePrintJob, u.clearRegionsAfterPrintFinishes, u.mayShrinkRegionsWhilePrinting)
        return d
    # (prototype restores by replay only; no __setstate__ needed)
    def regions_now(self):
        out = []
        for r in self.u.state.excludedRegions:
            d = dict(r.toDict()); out.append(d)
        return out
    def key(self):
        st = self.u.state
        def walk(o, depth=0):
            if isinstance(o, (int, float, str, bool, type(None))): return repr(o)
            if isinstance(o, (list, tuple)): return "[" + ",".join(walk(x, depth + 1) for x in o) + "]"
            if isinstance(o, dict): return "{" + ",".join(repr(k) + ":" + walk(v, depth + 1) for k, v in o.items()) + "}"
            if hasattr(o, "pattern"): return "re:" + o.pattern
            if hasattr(o, "__dict__"):
                return o.__class__.__name__ + "{" + ",".join(k + ":" + walk(v, depth + 1) for k, v in sorted(o.__dict__.items()) if k not in ("_logger", "excludeStartTime", "numCommands", "numExcludedCommands", "gcodeParser")) + "}"
            return repr(o)
        k = (walk(st), self.u._activePrintJob, self.u.clearRegionsAfterPrintFinishes, self.u.mayShrinkRegionsWhilePrinting, self.uuid.n,
             self.m_active, repr(self.m_regions), self.m_clear, self.m_shrink, self.m_homed)
        return hashlib.md5(repr(k).encode()).digest()
    def implkey(self):
        return self.key()
    # ---------------- events
    def step(self, ev):
        self.install()
        P.current_user = User(False)
        u = self.u; kind = ev[0]
        before_regions = self.regions_now(); self.pm.msgs = []
        k0 = self.key()
        obs = None
        if kind == "EV":
            name = ev[1]
            u.on_event(getattr(Events, name) if hasattr(Events, name) else name, {})
            if name == "PRINT_STARTED": self.m_active = True; self.m_homed = False
            elif name in ("PRINT_DONE", "PRINT_FAILED", "PRINT_CANCELLING", "PRINT_CANCELLED", "ERROR"):
                self.m_active = False
                if self.m_clear: self.m_regions = []; self.m_homed = False
            elif name == "FILE_SELECTED": self.m_regions = []; self.m_homed = False
        elif kind == "SET":
            u._settings.set_boolean([ev[1]], ev[2]); u.on_event(Events.SETTINGS_UPDATED, {})
            if ev[1].startswith("clear"): self.m_clear = ev[2]
            else: self.m_shrink = ev[2]
        elif kind == "API":
            op, rid, geo, anon = ev[1], ev[2], ev[3], ev[4]
            P.current_user = User(anon)
            data = {}
            if geo is not None: data.update(GEO[geo] if geo != "Foo" else {"type": "Foo"})
            if rid is not None: data["id"] = rid
            cmd = {"add": "addExcludeRegion", "upd": "updateExcludeRegion", "del": "deleteExcludeRegion"}[op]
            resp = u.on_api_command(cmd, data)
            # reference
            exp = None; changed = False
            ids = [r["id"] for r in self.m_regions]
            restricted = self.m_active and not self.m_shrink
            if anon: exp = 403
            elif op == "del":
                if restricted: exp = 409
                elif rid in ids: self.m_regions = [r for r in self.m_regions if r["id"] != rid]; changed = True
            elif geo == "Foo": exp = 400
            elif op == "add":
                if rid is not None and rid in ids: exp = 409
                else:
                    nid = rid if rid is not None else "u%d" % self.uuid.n   # uuid counter already advanced by impl
                    self.m_regions.append(dict(GEO[geo], id=nid)); changed = True
            elif op == "upd":
                if rid not in ids: exp = 409
                else:
                    old = [r for r in self.m_regions if r["id"] == rid][0]
                    if restricted and not g_contains(GEO[geo], old):
                        exp = 409
                    else:
                        self.m_regions = [dict(GEO[geo], id=rid) if r["id"] == rid else r for r in self.m_regions]; changed = True
            got = None if resp is None else resp[1]
            if got != exp: raise Viol("C13/C12 status: got %r expected %r for %r" % (resp, exp, ev))
            if exp is not None:
                if self.regions_now() != before_regions: raise Viol("C13 rejected request changed the list %r" % (ev,))
                if self.pm.msgs: raise Viol("C13 rejected request sent a notification %r" % (ev,))
        elif kind == "GET":
            with APP.app_context():
                got = json.loads(u.on_api_get(None).get_data())["excluded_regions"]
            if self.norm(got) != self.norm(self.regions_now()): raise Viol("C13 GET != list")
        elif kind == "GCODE":
            cmd = ev[1]; g, sc = gcode_and_subcode_for_cmd(cmd)
            obs = u.handleGcodeQueuing(self.comm, "queuing", cmd, None, g, sc)
            if self.m_active and g == "G28": self.m_homed = True
            if not self.m_active:
                if obs is not None: raise Viol("C11 gcode altered while inactive: %r -> %r" % (cmd, obs))
                if self.key() != k0: raise Viol("C11 gcode tracked while inactive: %r" % (cmd,))
        elif kind == "AT":
            self.comm.sent = []
            u.handleAtCommandQueuing(self.comm, "queuing", ev[1], ev[2])
            obs = list(self.comm.sent)
            if not self.m_active and (obs or self.key() != k0): raise Viol("C11 @-command processed while inactive")
        elif kind == "SCRIPT":
            wasExcluding = u.state.excluding
            obs = u.handleScriptHook(self.comm, ev[1], ev[2])
            expectContribution = self.m_active and wasExcluding and ev[1] == "gcode" and ev[2] == "afterPrintDone"
            if expectContribution:
                if not (isinstance(obs, tuple) and len(obs) == 2 and obs[1] is None and obs[0]): raise Viol("C15 expected prefix, got %r" % (obs,))
                if u.state.excluding: raise Viol("C15 still excluding after hook")
            else:
                if obs is not None: raise Viol("C15/C11 hook contributed %r for %r (active=%s excluding=%s)" % (obs, ev, self.m_active, wasExcluding))
                if self.key() != k0: raise Viol("C15 hook changed state")
        # ---- common registry checks
        now = self.regions_now()
        if self.norm(now) != self.norm(self.m_regions): raise Viol("C11/C13 list %r != model %r after %r" % (now, self.m_regions, ev))
        ids = [r["id"] for r in now]
        if len(ids) != len(set(ids)): raise Viol("C13 duplicate ids")
        if now != before_regions:
            if len(self.pm.msgs) != 1: raise Viol("C13 %d notifications for a change (%r)" % (len(self.pm.msgs), ev))
        for m in self.pm.msgs:
            if self.norm(m["excluded_regions"]) != self.norm(now): raise Viol("C13 notification payload != current list after %r" % (ev,))
        if self.u._activePrintJob != self.m_active: raise Viol("C11 active flag %r != model %r after %r" % (self.u._activePrintJob, self.m_active, ev))
        # C12: no excluded sample point lost while restricted
        return obs
    @staticmethod
    def norm(lst):
        return [tuple(sorted((k, float(v) if isinstance(v, (int, float)) and not isinstance(v, bool) else v) for k, v in r.items())) for r in lst]
    def enabled_events(self, menu):
        out = []
        for ev in menu:
            if ev[0] == "API" and ev[1] == "add" and len(self.m_regions) >= self.cfg.get("maxregions", 2): continue
            if ev[0] == "GCODE" and ev[1].startswith("G1") and self.m_active and not self.m_homed: continue
            if ev[0] == "API" and ev[1] == "add" and ev[2] is None and self.uuid.n >= 2: continue
            if ev[0] == "SET" and ((ev[1].startswith("clear") and self.m_clear == ev[2]) or (ev[1].startswith("may") and self.m_shrink == ev[2])): continue
            out.append(ev)
        return out

def explore(cfg, menu, maxdepth=99, maxstates=300000, quiet=False, cls=PWorld):
    t0 = time.time()
    w0 = cls(cfg); seen = {w0.key()}; frontier = [()]; trans = 0; viols = []; depth = 0
    while frontier and depth < maxdepth and len(seen) < maxstates:
        nxt = []
        for hist in frontier:
            base = cls(cfg)
            for ev in hist: base.step(ev)
            for ev in base.enabled_events(menu):
                w = cls(cfg)
                for e in hist: w.step(e)
                trans += 1
                try:
                    w.step(ev)
                except Viol as e:
                    tag = " ".join(str(e).split(" ")[:3])
                    if not any(v[0] == tag for v in viols): viols.append((tag, hist + (ev,), str(e)))
                    continue
                k = w.key()
                if k not in seen: seen.add(k); nxt.append(hist + (ev,))
        frontier = nxt; depth += 1
        if not quiet: print("depth", depth, "states", len(seen), "frontier", len(frontier), "trans", trans, "viols", len(viols), "%.1fs" % (time.time() - t0))
    return seen, trans, viols, not frontier

if __name__ == "__main__":
    which = sys.argv[1]; maxd = int(sys.argv[2])
    if which == "c11":
        menu = [("EV", n) for n in ["PRINT_STARTED", "PRINT_DONE", "PRINT_FAILED", "PRINT_CANCELLING", "PRINT_CANCELLED", "ERROR", "PRINT_PAUSED", "PRINT_RESUMED", "FILE_SELECTED", "CONNECTED"]] + \
               [("SET", "clearRegionsAfterPrintFinishes", True), ("SET", "clearRegionsAfterPrintFinishes", False),
                ("GCODE", "G28"), ("GCODE", "G1 X50 Y40"), ("GCODE", "G1 X10 Y10"), ("AT", "ExcludeRegion", "disable"), ("AT", "ExcludeRegion", "enable"),
                ("SCRIPT", "gcode", "afterPrintDone"), ("SCRIPT", "gcode", "beforePrintStarted"), ("API", "add", "a", "rA", False)]
        cfg = dict(maxregions=1)
    elif which == "c13":
        menu = [("API", "add", "a", "rA", False), ("API", "add", "b", "cIn", False), ("API", "add", None, "rSmall", False), ("API", "add", "a", "cBig", True),
                ("API", "upd", "a", "rBig", False), ("API", "upd", "a", "rSmall", False), ("API", "upd", "zz", "rA", False), ("API", "upd", "a", "Foo", False), ("API", "upd", "b", "cBig", False), ("API", "upd", "a", "cTouch", False),
                ("API", "del", "a", None, False), ("API", "del", "zz", None, False), ("API", "del", "a", None, True), ("GET",),
                ("EV", "PRINT_STARTED"), ("EV", "PRINT_DONE"), ("EV", "FILE_SELECTED"), ("SET", "clearRegionsAfterPrintFinishes", True), ("SET", "mayShrinkRegionsWhilePrinting", True), ("SET", "mayShrinkRegionsWhilePrinting", False)]
        cfg = dict(maxregions=2)
    seen, trans, viols, fix = explore(cfg, menu, maxdepth=maxd)
    print(which, "states", len(seen), "transitions", trans, "fixpoint", fix)
    for tag, hist, msg in viols: print("VIOL", msg, "\n    ", hist)
