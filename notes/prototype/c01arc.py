"""Prototype: C01/C03 monitors with arcs, region addition (3 regions), asymmetric geometry."""
import sys, math
from explore import *
import explore as E
from octoprint_excluderegion.RectangularRegion import RectangularRegion
from octoprint_excluderegion.CircularRegion import CircularRegion
E.PTS.clear(); E.PTS.update({"O1": (10, 10), "O2": (70, 65), "I1": (50, 40), "I2": (55, 35), "Bd": (58, 46), "P30": (30, 25), "P70": (70, 25)})
ARCS = {"clear": ("O1", "O2", (30, 27.5), "G2"), "thru": ("P30", "P70", (20, 0), "G2"), "into": ("P30", "I1", (2.5, 17.5), "G3"), "back": ("P70", "P30", (-20, 0), "G3")}

def arc_hits(start, end, ij, code, regions):
    cx, cy = start[0] + ij[0], start[1] + ij[1]; r = math.hypot(*ij)
    a0 = math.atan2(start[1] - cy, start[0] - cx); a1 = math.atan2(end[1] - cy, end[0] - cx)
    sweep = (a1 - a0) % (2 * math.pi)
    if code == "G2": sweep -= 2 * math.pi
    if sweep == 0: sweep = 2 * math.pi if code == "G3" else -2 * math.pi
    n = max(2, int(abs(sweep) * r / 0.2))
    for k in range(1, n + 1):
        a = a0 + sweep * k / n
        if inside(Fr(cx + r * math.cos(a)), Fr(cy + r * math.sin(a)), regions): return True
    return False

class W1(World):
    def __init__(self, cfg):
        self.cfg = cfg; self.regions = []; regs = []
        if "R" in cfg["regions"]: regs.append(RectangularRegion(x1=40, y1=30, x2=60, y2=50, id="r")); self.regions.append(("R", (40, 30, 60, 50)))
        if "D" in cfg["regions"]: regs.append(CircularRegion(cx=52, cy=38, r=10, id="d")); self.regions.append(("D", (52, 38, 10)))
        self.h = mk(regs, enter=(list(cfg["enter"]) if cfg.get("enter") else None))
        self.A = Printer(False); self.B = Printer(False)
        self.enabled = True; self.episode = False; self.maxDepthB = Fr(0); self.comm = Comm(); self.added = False; self.arcHit = False
        for c in ["G28", "G1 X10 Y10 Z1 F3000"]: self.feed(c, check=False)
    def at(self, name): return (self.B.p["X"], self.B.p["Y"]) == tuple(map(Fr, E.PTS[name]))
    def render(self, ev):
        if ev[0] == "ARC":
            s, e, ij, code = ARCS[ev[1]]
            return "%s X%s Y%s I%s J%s" % (code, E.PTS[e][0], E.PTS[e][1], ij[0], ij[1])
        return World.render(self, ev)
    def enabled_events(self, menu):
        out = []
        for ev in World.enabled_events(self, [m for m in menu if m[0] not in ("ARC", "ADD")]): out.append(ev)
        for ev in menu:
            if ev[0] == "ARC" and self.at(ARCS[ev[1]][0]) and self.B.abs and self.B.unit == 1: out.append(ev)
            if ev[0] == "ADD" and not self.added: out.append(ev)
        return out
    def step(self, ev):
        if ev[0] == "ADD":
            self.h.state.addRegion(RectangularRegion(x1=65, y1=60, x2=75, y2=70, id="r2")); self.regions.append(("R", (65, 60, 75, 70))); self.added = True
            return "ADD", []
        if ev[0] == "ARC":
            s, e, ij, code = ARCS[ev[1]]
            self.arcHit = self.enabled and arc_hits(E.PTS[s], E.PTS[e], ij, code, self.regions)
        else: self.arcHit = False
        return World.step(self, ev)
    def key(self):
        return hashlib.md5(World.key(self) + repr((self.added,)).encode()).digest()

# patch World.feed's destination test to account for arcs passing through a region
_orig_inside = E.inside
def patched_feed(self, cmd, check=True):
    return _feed(self, cmd, check)
_feed = World.feed
import types
def feed2(self, cmd, check=True):
    if getattr(self, "arcHit", False):
        # treat as destination inside for episode bookkeeping
        saved = E.inside
        E.inside = lambda x, y, regs: True if regs is self.regions and not getattr(self, "_inA", False) else saved(x, y, regs)
        try: return _feed(self, cmd, check)
        finally: E.inside = saved
    return _feed(self, cmd, check)

if __name__ == "__main__":
    menu = [("TRAVEL", "O2"), ("TRAVEL", "I1"), ("PRINT", "I2"), ("PRINT", "O1"), ("TRAVEL", "Bd"), ("TRAVEL", "P30"), ("TRAVEL", "P70"), ("XONLY", "O2"), ("ZMOVE", 2), ("ZMOVE", 1),
            ("ARC", "clear"), ("ARC", "thru"), ("ARC", "into"), ("ARC", "back"), ("ADD",), ("AT", "disable"), ("AT", "enable")]
    cfg = dict(regions=sys.argv[2] if len(sys.argv) > 2 else "RD", emax=1, enter=["M117 in"])
    E.World = W1
    seen, trans, viols, fix = explore(cfg, menu, maxdepth=int(sys.argv[1]), stop_first=False, quiet=True)
    print("c01arc states", len(seen), "transitions", trans, "fixpoint", fix)
    for tag, hist, msg in viols:
        print("VIOL", msg)
        w = W1(cfg)
        for ev in hist:
            try: cmd, fwd = w.step(ev); print("    %-20s %-30s -> %s" % (ev, cmd, fwd))
            except Viol as e: print("    %-20s !! %s" % (ev, e)); break
