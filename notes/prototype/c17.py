import sys, os, itertools, math, time
sys.path.insert(0, os.environ.get("REPO", "/repo"))
from fractions import Fraction as Fr
from octoprint_excluderegion.RectangularRegion import RectangularRegion as RR
from octoprint_excluderegion.CircularRegion import CircularRegion as CR
V = [-1, 0, 0.5, 1, 2]
rects = [(a, b, c, d) for a in V for b in V for c in V for d in V]
discs = [(cx, cy, r) for cx in [0, 0.5, 1] for cy in [0, 0.5, 1] for r in [0, 0.5, 1, 1.5, 2.5, 5, -1]]
discs += [(0, 0, 5), (0, 0, math.nextafter(5, 0)), (0, 0, math.nextafter(5, 9)), (3, 4, 0), (0, 0, math.sqrt(2)), (0, 0, math.nextafter(math.sqrt(2), 0)), (1, 1, math.sqrt(2)), (1,1,math.nextafter(math.sqrt(2), 9))]
rects += [(-3, -4, 3, 4), (0, 0, 3, 4), (0, 0, 1, 1), (-1, -1, 1, 1)]
pts = [(x / 4, y / 4) for x in range(-8, 13) for y in range(-8, 13)] + [(3, 4), (-3, 4), (1, 1), (5, 0), (0, -5)]
def F(x): return Fr(x)
def rin(p, r):
    x1, x2 = sorted((F(r[0]), F(r[2]))); y1, y2 = sorted((F(r[1]), F(r[3])))
    return x1 <= F(p[0]) <= x2 and y1 <= F(p[1]) <= y2
def din(p, d):
    if d[2] < 0: return False
    return (F(p[0]) - F(d[0])) ** 2 + (F(p[1]) - F(d[1])) ** 2 <= F(d[2]) ** 2
errs = {}; n = 0; t0 = time.time()
R = [("R", r, RR(x1=r[0], y1=r[1], x2=r[2], y2=r[3], id="x")) for r in rects]
D = [("D", d, CR(cx=d[0], cy=d[1], r=d[2], id="x")) for d in discs]
for kind, g, obj in R + D:
    for p in pts:
        n += 1
        exp = rin(p, g) if kind == "R" else din(p, g)
        if bool(obj.containsPoint(p[0], p[1])) != exp: errs.setdefault("containsPoint " + kind, (g, p, exp))
# corner-order invariance
for r in rects:
    a = RR(x1=r[0], y1=r[1], x2=r[2], y2=r[3], id="x"); b = RR(x1=r[2], y1=r[3], x2=r[0], y2=r[1], id="x"); c = RR(x1=r[2], y1=r[1], x2=r[0], y2=r[3], id="x")
    if not (a == b == c): errs.setdefault("corner order", r)
def exact_contains(ok, og, ik, ig):
    # is inner subset of outer (as point sets)?
    if ik == "D" and ig[2] < 0: return True
    if ik == "R":
        x1, x2 = sorted((ig[0], ig[2])); y1, y2 = sorted((ig[1], ig[3]))
        corners = [(x1, y1), (x1, y2), (x2, y1), (x2, y2)]
        return all((rin(c, og) if ok == "R" else din(c, og)) for c in corners)
    cx, cy, r = F(ig[0]), F(ig[1]), F(ig[2])
    if ok == "R":
        x1, x2 = sorted((F(og[0]), F(og[2]))); y1, y2 = sorted((F(og[1]), F(og[3])))
        return x1 <= cx - r and cx + r <= x2 and y1 <= cy - r and cy + r <= y2
    if og[2] < 0: return False
    R_ = F(og[2]); d2 = (cx - F(og[0])) ** 2 + (cy - F(og[1])) ** 2
    return R_ >= r and d2 <= (R_ - r) ** 2
pairs = 0
for ok, og, oo in R + D:
    for ik, ig, io in R + D:
        pairs += 1
        if oo.containsRegion(io) and not exact_contains(ok, og, ik, ig):
            errs.setdefault("unsound containsRegion %s<-%s" % (ok, ik), (og, ig))
print("points", n, "pairs", pairs, "%.1fs" % (time.time() - t0))
for k, v in errs.items(): print(k, v)
