import sys, os, itertools, time
sys.path.insert(0, os.environ.get("REPO", "/repo"))
from octoprint_excluderegion.GcodeParser import GcodeParser
ALPHA = ["G", "N", "X", "1", "0", "-", ".", " ", "*", ";", "\\", "\r", "\n", "é", "T", "m"]
L = int(sys.argv[1])
p = GcodeParser(); q = GcodeParser()
kinds = {}
n = 0; t0 = time.time()
def rec(kind, s, extra=""):
    if kind not in kinds: kinds[kind] = (s, extra)
for ln in range(0, L + 1):
    for tup in itertools.product(ALPHA, repeat=ln):
        s = "".join(tup); n += 1
        try:
            out = []
            cnt = 0
            for line in p.parseLines(s):
                cnt += 1
                if cnt > len(s) + 2: rec("nonterminating", s); break
                out.append(line.fullText)
                if line.gcode is not None:
                    cs = line.commandString
                    g, sc, params, items = line.gcode, line.subCode, line.parameters, list(line.parameterItems())
                    ln_ = line.lineNumber
                    q.parse(cs)
                    if (q.gcode, q.subCode, list(q.parameterItems()), q.commandString) != (g, sc, items, cs):
                        rec("idempotence", s, "cs=%r -> %r" % (cs, (q.gcode, q.subCode, q.parameters, q.commandString)))
                    # render with line number + checksum
                    if ln_ is None:
                        q.parse(line.fullText); q.lineNumber = 7
                    else:
                        q.parse(line.fullText)
                    txt = q.stringify(includeComment=False, includeEol=False)
                    try:
                        GcodeParser().parse(txt).validate()
                    except ValueError as e:
                        rec("checksum", s, "%r: %s" % (txt, e))
            if "".join(out) != s: rec("lossless", s, repr("".join(out)))
        except Exception as e:
            rec("exception " + type(e).__name__, s, str(e))
print("strings", n, "%.1fs" % (time.time() - t0))
for k, (s, e) in kinds.items(): print(k, repr(s), e)
