import sys, os, math, time
sys.path.insert(0, "/root/scratch")
from probe import *
errs = {}; n = 0; t0 = time.time()
h = mk([])
TWO_PI = 2 * math.pi
def setpos(x, y):
    h.state.position.X_AXIS.current = x; h.state.position.Y_AXIS.current = y; h.state.position.Z_AXIS.current = 1.0
for c in ["G28"]: h.handleGcode(c, "G28")
nseg = {}
for (sx, sy) in [(0.0, 0.0), (50.0, 50.0), (-20.0, 35.5)]:
  for rad in [0.2, 0.5, 1, 2.5, 10, 50, 137, 500]:
    for k in range(12):
      a0 = k * math.pi / 6 + 0.1
      cx = sx - rad * math.cos(a0); cy = sy - rad * math.sin(a0)
      i, j = cx - sx, cy - sy
      for m in range(1, 25):
        sweep = m * math.pi / 12
        for cw in (True, False):
            n += 1
            sgn = -1 if cw else 1
            a1 = a0 + sgn * sweep
            if m == 24: ex, ey = sx, sy
            else: ex, ey = cx + rad * math.cos(a1), cy + rad * math.sin(a1)
            setpos(sx, sy)
            try:
                pts = h.planArc(ex, ey, i, j, cw)
            except Exception as e:
                errs.setdefault("EXC %r" % e, (sx, sy, rad, k, m, cw)); continue
            P = [(pts[q], pts[q + 1]) for q in range(0, len(pts), 2)]
            r0 = math.hypot(i, j)
            if P[-1] != (ex, ey): errs.setdefault("endpoint", (sx, sy, rad, k, m, cw))
            N = len(P)
            tol = 1e-9 * max(1, rad)
            prev = (sx, sy); 
            for idx, p in enumerate(P):
                d = math.hypot(p[0] - cx, p[1] - cy)
                if abs(d - r0) > max(tol, 1e-7 * rad): errs.setdefault("off circle", (sx, sy, rad, k, m, cw, idx, d, r0))
                ang = math.atan2(p[1] - cy, p[0] - cx)
                expa = a0 + sgn * sweep * (idx + 1) / N
                da = (ang - expa + math.pi) % TWO_PI - math.pi
                if abs(da) > 1e-7: errs.setdefault("angle", (sx, sy, rad, k, m, cw, idx, N, da))
                if math.hypot(p[0] - prev[0], p[1] - prev[1]) > 1 + 1e-9: errs.setdefault("spacing", (sx, sy, rad, k, m, cw, idx, math.hypot(p[0] - prev[0], p[1] - prev[1])))
                prev = p
print("arcs", n, "%.1fs" % (time.time() - t0))
for k, v in errs.items(): print(k, v)
