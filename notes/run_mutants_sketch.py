"""Apply single-substitution mutants to a scratch copy of /repo and run the baseline suite."""
import os, shutil, subprocess, sys, json
MUTS = [
 ("C04-g92e-ignored-when-excluding", "GcodeHandlers.py", "                if (label == \"E\"):\n                    # Note: 1.0 Marlin", "                if (label == \"E\" and self.state.excluding is True):\n                    pass\n                elif (label == \"E\"):\n                    # Note: 1.0 Marlin"),
 ("C09-hook-filters-none", "__init__.py", "            return self.gcodeHandlers.handleGcode(cmd, gcode, subcode)", "            result = self.gcodeHandlers.handleGcode(cmd, gcode, subcode)\n            return [item for item in result if item] if (result is not None) else None"),
 ("C14-settings-first-action-only", "__init__.py", "            else:\n                entry.append(val)\n        self.state.atCommandActions = atCommandActions", "            else:\n                pass\n        self.state.atCommandActions = atCommandActions"),
 ("C16-midY", "GcodeHandlers.py", "            midY = (q1 + q2) / 2", "            midY = q1"),
 ("C01-circle-open-border", "CircularRegion.py", "return self.r >= math.hypot(x - self.cx, y - self.cy)", "return self.r > math.hypot(x - self.cx, y - self.cy)"),
 ("C03-exit-feedrate-only", "ExcludeRegionState.py", "        if (newZ < oldZ):\n            # Move Z axis _down_", "        if (newZ < oldZ and self.position.Z_AXIS.absoluteMode):\n            # Move Z axis _down_"),
 ("C08-g92-ignores-units", "AxisPosition.py", "        self.offset += self.logicalToNative(offset) - self.current", "        self.offset += (self.logicalToNative(offset) - self.current) if (self.unitMultiplier == 1.0 or self.absoluteMode is not True) else (offset + self.offset + self.homeOffset - self.current)"),
 ("C20-state-shared-regions", "StreamProcessor.py", "            copy.deepcopy(gcodeHandlers.state),", "            copy.copy(gcodeHandlers.state),"),
 ("C17-circle-in-circle-sign", "CircularRegion.py", "            dist = math.hypot(self.cx - otherRegion.cx, self.cy - otherRegion.cy) + otherRegion.r", "            dist = math.hypot(self.cx - otherRegion.cx, self.cy - otherRegion.cy) + abs(otherRegion.r) * (1 if otherRegion.r <= self.r else 0)"),
]
base = json.load(open("/root/.vp/BASELINE.json"))
stable = set(base["stable_pass"])
only = sys.argv[1:] 
for name, fn, old, new in MUTS:
    if only and name not in only: continue
    d = "/root/scratch/mut/work"
    shutil.rmtree(d, ignore_errors=True)
    shutil.copytree("/repo", d, ignore=shutil.ignore_patterns(".git"))
    p = os.path.join(d, "octoprint_excluderegion", fn)
    s = open(p, newline="").read()
    o = old.replace("\n", "\r\n"); n = new.replace("\n", "\r\n")
    if s.count(o) != 1:
        print("%-32s PATTERN count=%d" % (name, s.count(o))); continue
    open(p, "w", newline="").write(s.replace(o, n))
    r = subprocess.run(["/venv/bin/python", "-m", "pytest", "-q", "-p", "no:cacheprovider", "--continue-on-collection-errors", "-x" if False else "-q", "--junitxml=/root/scratch/mut/j.xml"], cwd=d, capture_output=True, text=True)
    import xml.etree.ElementTree as ET
    passed = set()
    for tc in ET.parse("/root/scratch/mut/j.xml").getroot().iter("testcase"):
        if not list(tc):
            passed.add(tc.get("classname") + "::" + tc.get("name"))
    missing = sorted(stable - passed)
    print("%-32s %s" % (name, "SURVIVES baseline" if not missing else "KILLED by %d: %s" % (len(missing), missing[0].split("::")[-1])))
shutil.rmtree("/root/scratch/mut/work", ignore_errors=True)
